package c10

import (
	"fmt"
	"strings"

	"hv/fw"
)

// Two program families in which the code between two cancellation polls is not script code but Go
// code of the repository that loops over data, so "stops within a bounded number of steps" and "the
// wait call itself always returns" depend on that Go code coming back:
//
//   - fatal errors (fatalPrograms): when a core fails, the VM unwinds its call stack into a stack
//     trace before it signals the host's wait. What the unwinding has to do depends on the frames on
//     the stack: how many there are, how often one repeats (recursion) and how long their labels are
//     (function names of 5 … 27 characters, functions of a module with a long name, function
//     literals). Every kind of fatal error (index, division by zero, uncaught throw, unwrap of none,
//     call stack overflow) × every label length × the shapes direct / chain of three long-named
//     functions / recursion / function literal / inside try / in a spawned core next to finite cores /
//     in a spawned core next to cores that never finish / in a function of an imported module.
//   - builtin members that loop over their receiver (memberPrograms): sort on int, float and string
//     lists in every initial order, contains, join, concat, insert, remove, push_front, pop_front,
//     to_string, to_json, split, replace, repeat, substring, compare_lev, parse_json, rev, diff,
//     to_range, iteration over lists, strings and reversed ranges - finite and inside infinite loops,
//     on one core and on several, both back ends.
//
// Both are appended to `programs`, so each gets the full enumeration of cancellation points and end
// modes. genCases adds seed-chosen members of both families (random lists, random name lengths).

// ---------------------------------------------------------------------------------------------
// fatal errors under long function names

const nameStock = "fetch_next_row_from_backlog_and_retry_later_when_the_queue_drains"

// nameOfLen: an identifier of exactly n characters (n >= 2) whose last character is tail.
func nameOfLen(n int, tail byte) string {
	b := []byte(nameStock)
	for len(b) < n {
		b = append(b, []byte("_"+nameStock)...)
	}
	b = b[:n]
	if b[n-2] == '_' {
		b[n-2] = 'x'
	}
	b[n-1] = tail
	return string(b)
}

var fatalKinds = []string{"index", "divzero", "throw", "unwrap", "overflow"}

// fatalBody: statements + value (type int) that fail fatally; v is the int parameter in scope, self
// the call that recurses for ever (kind overflow).
func fatalBody(kind, v, self string) string {
	switch kind {
	case "index":
		return "let l = [1, 2]; l[" + v + " + 7]"
	case "divzero":
		return "10 / (" + v + " - " + v + ")"
	case "throw":
		return "if " + v + " >= 0 { throw(\"boom\"); } " + v
	case "unwrap":
		return "let o: ?int = none; o.unwrap() + " + v
	case "overflow":
		return self + "(" + v + " + 1)"
	}
	panic("c10: fatal kind " + kind)
}

var fatalShapes = []string{"direct", "chain", "rec", "lambda", "try", "spawn-fin", "spawn-inf", "module"}

// fatalProgram: a program in which a fatal error of the given kind is raised while functions with
// names of nameLen characters are on the call stack.
func fatalProgram(shape, kind string, nameLen int) program {
	f := nameOfLen(nameLen, 'a')
	g := nameOfLen(nameLen, 'b')
	h := nameOfLen(nameLen, 'c')
	w := nameOfLen(nameLen, 'w')
	pre := "let i = 0; while i < 3 { i += 1; } "
	// the interpreter keeps no stack trace: its runs of this family get a ladder of cancellation points
	p := program{name: fmt.Sprintf("fatal-%s-%s-%d", shape, kind, nameLen), sparseTree: true}
	fn := func(name, body string) string { return "fn " + name + "(n: int) -> int { " + body + " }\n" }
	switch shape {
	case "direct":
		p.src = fn(f, fatalBody(kind, "n", f)) + "fn main() { " + pre + "println(" + f + "(1)); println(\"end\"); }"
	case "chain":
		p.src = fn(h, fatalBody(kind, "n", h)) + fn(g, h+"(n + 1) + 1") + fn(f, "let r = "+g+"(n + 1); r + 1") +
			"fn main() { " + pre + "println(" + f + "(1)); }"
	case "rec":
		p.src = fn(f, "if n < 12 { "+f+"(n + 1) + 1 } else { "+fatalBody(kind, "n", f)+" }") + "fn main() { println(" + f + "(0)); }"
	case "lambda":
		p.src = fn(f, "let inner = fn(m: int) -> int { "+fatalBody(kind, "m", f)+" }; inner(n) + 1") + "fn main() { " + pre + "println(" + f + "(1)); }"
	case "try":
		p.src = fn(f, fatalBody(kind, "n", f)) + "fn main() { " + pre + "try { println(" + f + "(1)); } catch e { println(\"caught\", e.message); } println(\"after\"); }"
	case "spawn-fin":
		p.multi = true
		p.src = fn(f, fatalBody(kind, "n", f)) + "fn " + w + "(n: int) { let i = 0; while i < n { i += 1; } println(" + f + "(n)); }\n" +
			"fn idle(n: int) { let i = 0; while i < n { i += 1; } }\n" +
			"fn main() { spawn idle(60); spawn " + w + "(8); spawn idle(15); let j = 0; while j < 40 { j += 1; } println(\"main\"); }"
	case "spawn-inf":
		// the program's own outcome is the failure of one core (the wait returns it and stops the rest)
		p.multi, p.infinite, p.ownFails = true, true, true
		p.src = fn(f, fatalBody(kind, "n", f)) + "fn " + w + "(n: int) { let i = 0; while i < n { i += 1; } println(" + f + "(n)); }\n" +
			"fn spin(n: int) { loop { let x = n + 1; } }\n" +
			"fn main() { spawn spin(1); spawn " + w + "(8); spawn spin(2); loop { } }"
	case "module":
		mod := "lib_" + nameOfLen(nameLen, 'm')
		p.mods = map[string]string{mod: "pub " + fn(f, g+"(n) + 1") + fn(g, fatalBody(kind, "n", g)) + "\nfn main() {}\n"}
		p.src = "import " + f + " from " + mod + ";\n\nfn main() { " + pre + "println(" + f + "(1)); }"
	default:
		panic("c10: fatal shape " + shape)
	}
	return p
}

var fatalNameLens = []int{5, 10, 14, 18, 27}

// fatalPrograms: every (kind, name length) pair and every (shape, name length) pair occurs; the
// shapes rotate over the pairs (5 kinds x 5 lengths = 25 programs instead of the 200 of the full
// product; genCases draws from the full product by seed).
var fatalPrograms = func() []program {
	var ps []program
	for li, n := range fatalNameLens {
		for ki, kind := range fatalKinds {
			shape := fatalShapes[(li*3+ki*5)%len(fatalShapes)]
			ps = append(ps, withPolls(fatalProgram(shape, kind, n)))
		}
	}
	// the shapes with several cores for every name length (above they meet only some)
	for li, n := range fatalNameLens {
		for si, shape := range []string{"spawn-fin", "spawn-inf"} {
			p := fatalProgram(shape, fatalKinds[(li+2*si)%len(fatalKinds)], n)
			dup := false
			for _, q := range ps {
				dup = dup || (strings.HasPrefix(q.name, "fatal-"+shape+"-") && strings.HasSuffix(q.name, fmt.Sprintf("-%d", n)))
			}
			if !dup {
				ps = append(ps, withPolls(p))
			}
		}
	}
	return ps
}()

// ---------------------------------------------------------------------------------------------
// builtin members that loop over their receiver

var sortStock = map[string][]string{
	"int":   {"-40", "-3", "0", "7", "19", "230", "4096"},
	"float": {"-12.5", "-0.25", "0.0", "0.75", "3.5", "81.125", "1000.5"},
	"str":   {"\"\"", "\"Zed\"", "\"anna\"", "\"bert\"", "\"berta\"", "\"carl\"", "\"dora\""},
}

var sortTypes = []string{"int", "float", "str"}

// sortOrders: the initial orders of a list of 7 ascending values (indices into the stock).
var sortOrders = []struct {
	name string
	idx  []int
}{
	{"asc", []int{0, 1, 2, 3, 4, 5, 6}},
	{"desc", []int{6, 5, 4, 3, 2, 1, 0}},
	{"rotated", []int{3, 4, 5, 6, 0, 1, 2}},
	{"shuffled", []int{4, 0, 6, 2, 5, 1, 3}},
	{"dups", []int{5, 1, 5, 1, 3, 3, 0}},
	{"last-first", []int{1, 2, 3, 4, 5, 6, 0}},
	{"swapped-pair", []int{1, 0}},
	{"single", []int{3}},
	{"equal", []int{2, 2, 2}},
}

func listLit(typ string, idx []int) string {
	el := make([]string, len(idx))
	for i, j := range idx {
		el[i] = sortStock[typ][j]
	}
	return "[" + strings.Join(el, ", ") + "]"
}

// sortProgram: every initial order of a list of the element type is sorted and printed.
func sortProgram(typ string) program {
	var sb strings.Builder
	sb.WriteString("fn main() {\n")
	for i, o := range sortOrders {
		fmt.Fprintf(&sb, "    let l%d = %s; l%d.sort(); println(\"%s\", l%d);\n", i, listLit(typ, o.idx), i, o.name, i)
	}
	fmt.Fprintf(&sb, "    let e: [%s] = []; e.sort(); println(e.len());\n}", typ)
	return program{name: "sort-" + typ, src: sb.String()}
}

// sortLoopProgram: lists are built and sorted for ever.
func sortLoopProgram(typ string) program {
	return program{name: "sort-" + typ + "-loop", infinite: true,
		src: "fn main() { let n = 0; loop { n += 1; let a = " + listLit(typ, sortOrders[1].idx) + "; a.sort(); let b = " + listLit(typ, sortOrders[3].idx) + "; b.sort(); b.push(a[n % 7]); b.sort(); } }"}
}

func memberList() []program {
	var ps []program
	for _, t := range sortTypes {
		ps = append(ps, sortProgram(t), sortLoopProgram(t))
	}
	desc := func(t string) string { return listLit(t, sortOrders[1].idx) }
	shuf := func(t string) string { return listLit(t, sortOrders[3].idx) }
	ps = append(ps,
		program{name: "list-search", src: "fn main() {\n" +
			"    let li = " + shuf("int") + "; let lf = " + shuf("float") + "; let ls = " + shuf("str") + ";\n" +
			"    println(li.contains(4096), li.contains(5), lf.contains(0.75), lf.contains(9.0), ls.contains(\"dora\"), ls.contains(\"nobody\"));\n" +
			"    println(li.join(\"+\"), lf.join(\" \"), ls.join(\", \"));\n" +
			"    println(li.to_string(), lf.to_string(), ls.to_string(), li.last(), ls.last());\n" +
			"    println(li.to_json(), ls.to_json(), lf.to_json_indent());\n" +
			"    li.concat(" + desc("int") + "); ls.concat(" + desc("str") + "); lf.concat(lf); println(li.len(), ls.len(), lf);\n" +
			"}"},
		program{name: "list-edit", src: "fn main() {\n" +
			"    let li = " + desc("int") + "; let ls = " + desc("str") + ";\n" +
			"    li.insert(0, 1); li.insert(3, 2); li.insert(li.len(), 3); ls.insert(2, \"mid\"); println(li, ls);\n" +
			"    li.push_front(9); ls.push_front(\"first\"); li.push(8); println(li.pop_front(), ls.pop_front(), li.pop(), ls.pop());\n" +
			"    li.remove(0); li.remove(li.len() - 1); ls.remove(1); println(li, ls);\n" +
			"    while li.len() > 0 { li.remove(0); } while ls.len() > 0 { ls.pop_front(); } println(li, ls, li.pop(), ls.last());\n" +
			"}"},
		program{name: "list-edit-loop", infinite: true,
			src: "fn main() { let l = " + desc("str") + "; let n = 0; loop { n += 1; l.push_front(n.to_string()); l.insert(2, \"x\"); l.sort(); l.remove(0); l.pop(); let has = l.contains(\"zz\"); let j = l.join(\"\"); } }"},
		program{name: "str-members", src: "fn main() {\n" +
			"    let s = \"the quick brown fox, the lazy dog, the end\";\n" +
			"    println(s.replace(\"the\", \"a\"), s.replace(\"\", \"-\").len(), s.replace(\"zz\", \"y\") == s);\n" +
			"    println(s.split(\", \"), s.split(\"\").len(), s.split(\"the\"), s.split(\"zz\").len());\n" +
			"    println(\"ab\".repeat(9), \"\".repeat(50).len(), \"x\".repeat(0).len(), s.repeat(3).len());\n" +
			"    println(s.contains(\"lazy\"), s.contains(\"\"), s.contains(\"cat\"), s.starts_with(\"the q\"), s.starts_with(\"fox\"));\n" +
			"    println(s.substring(4), s.substring(0).len(), s.to_upper(), s.to_upper().to_lower() == s);\n" +
			"    println(s.compare_lev(\"the quick brown dog\"), \"\".compare_lev(s), \"kitten\".compare_lev(\"sitting\"), s.len());\n" +
			"    println(\"42\".parse_int(), \"2.5\".parse_float(), \"false\".parse_bool());\n" +
			"    let back = s.split(\" \").to_json().parse_json() as [str]; println(back.len(), back.join(\"_\"));\n" +
			"}"},
		program{name: "str-members-loop", infinite: true,
			src: "fn main() { let n = 0; loop { n += 1; let s = \"a-b-c-\".repeat(1 + n % 5); let parts = s.split(\"-\"); parts.sort(); let j = parts.join(\"+\").replace(\"+\", \"\"); let d = j.compare_lev(s); let u = j.to_upper().contains(\"ABC\"); } }"},
		program{name: "range-members", src: "fn main() {\n" +
			"    let r = 3..40; println(r.rev(), r.diff(), r.rev().diff(), r.rev().rev(), r.to_string(), 6.to_range(), 0.to_range().diff());\n" +
			"    let s = 0; for i in (0..9).rev() { s = s * 2 + i; } for i in 4.to_range() { s += i; } for i in (5..5).rev() { s += 100; } println(s);\n" +
			"    let t = \"\"; for c in \"hello\" { s += 1; } for w in \"a b c\".split(\" \") { t += w; } println(t, s);\n" +
			"    let acc = 0; for x in " + shuf("int") + " { acc += x; } for f in " + desc("float") + " { if f > 1.0 { acc += 1; } } println(acc);\n" +
			"}"},
		program{name: "range-loop", infinite: true,
			src: "fn main() { let n = 0; loop { n += 1; let r = (0..(n % 6)).rev(); for i in r { n += i - i; } let d = r.diff() + r.rev().diff(); } }"},
		// several cores, each inside the members of its own data (nothing shared between cores)
		program{name: "spawn-sort", multi: true,
			src: "fn sort_ints(n: int) { let i = 0; while i < n { i += 1; let l = " + desc("int") + "; l.sort(); l.push_front(i); l.sort(); } println(\"ints\"); }\n" +
				"fn sort_floats(n: int) { let i = 0; while i < n { i += 1; let l = " + shuf("float") + "; l.sort(); let has = l.contains(3.5); } println(\"floats\"); }\n" +
				"fn sort_strs(n: int) { let i = 0; while i < n { i += 1; let l = " + desc("str") + "; l.sort(); let j = l.join(\",\").split(\",\"); j.sort(); } println(\"strs\"); }\n" +
				"fn main() { spawn sort_ints(12); spawn sort_floats(30); spawn sort_strs(6); let l = " + shuf("str") + "; l.sort(); println(\"main\", l); }"},
		program{name: "spawn-sort-inf", multi: true, infinite: true,
			src: "fn sort_ints(n: int) { loop { let l = " + desc("int") + "; l.sort(); l.push_front(n); l.sort(); } }\n" +
				"fn sort_floats(n: int) { loop { let l = " + shuf("float") + "; l.sort(); let has = l.contains(3.5); } }\n" +
				"fn sort_strs(n: int) { loop { let l = " + desc("str") + "; l.sort(); let j = l.join(\",\").split(\",\"); j.sort(); } }\n" +
				"fn main() { spawn sort_ints(1); spawn sort_floats(2); spawn sort_strs(3); loop { let l = " + shuf("str") + "; l.sort(); } }"},
	)
	for i := range ps {
		ps[i] = withPolls(ps[i])
	}
	return ps
}

var memberPrograms = memberList()

// ---------------------------------------------------------------------------------------------
// cancellation points of the two families

// measuredPolls: polls (Done() calls) of the uncancelled run of each listed program, {VM, interpreter}
// (measured on the unchanged tree by TestMeasurePolls in polls_test.go; the enumeration goes one poll
// beyond; infinite programs: the first polls; 0 = the program does not run on that back end). A program that is not
// listed gets defaultPolls: cancellation points beyond the end of the run are merely trivial cases.
var measuredPolls = map[string][2]int{
	"fatal-direct-index-5": {2, 47},
	"fatal-spawn-fin-divzero-5": {35, 0},
	"fatal-rec-throw-5": {3, 167},
	"fatal-module-unwrap-5": {2, 49},
	"fatal-try-overflow-5": {14, 631},
	"fatal-lambda-index-10": {2, 54},
	"fatal-direct-divzero-10": {2, 44},
	"fatal-spawn-fin-throw-10": {35, 0},
	"fatal-rec-unwrap-10": {3, 163},
	"fatal-module-overflow-10": {14, 627},
	"fatal-spawn-inf-index-14": {1659, 0},
	"fatal-lambda-divzero-14": {2, 51},
	"fatal-direct-throw-14": {2, 48},
	"fatal-spawn-fin-unwrap-14": {35, 0},
	"fatal-rec-overflow-14": {21, 1105},
	"fatal-chain-index-18": {2, 61},
	"fatal-spawn-inf-divzero-18": {2168, 0},
	"fatal-lambda-throw-18": {2, 55},
	"fatal-direct-unwrap-18": {2, 44},
	"fatal-spawn-fin-overflow-18": {48, 0},
	"fatal-try-index-27": {2, 50},
	"fatal-chain-divzero-27": {2, 58},
	"fatal-spawn-inf-throw-27": {2207, 0},
	"fatal-lambda-unwrap-27": {2, 51},
	"fatal-direct-overflow-27": {14, 628},
	"fatal-spawn-inf-throw-5": {4416, 0},
	"fatal-spawn-inf-unwrap-10": {2112, 0},
	"fatal-spawn-fin-overflow-27": {48, 0},
	"sort-int": {7, 175},
	"sort-int-loop": {12, 45},
	"sort-float": {7, 175},
	"sort-float-loop": {12, 45},
	"sort-str": {6, 160},
	"sort-str-loop": {12, 45},
	"list-search": {6, 145},
	"list-edit": {9, 277},
	"list-edit-loop": {12, 45},
	"str-members": {6, 169},
	"str-members-loop": {12, 45},
	"range-members": {14, 327},
	"range-loop": {12, 45},
	"spawn-sort": {55, 0},
	"spawn-sort-inf": {12, 45},
}

var defaultPolls = [2]int{8, 60}

func withPolls(p program) program {
	m, ok := measuredPolls[p.name]
	if !ok {
		m = defaultPolls
	}
	p.kmaxVM, p.kmaxTree = m[0], m[1]
	if strings.HasPrefix(p.name, "fatal-") {
		// the polls of a run with several cores depend on the schedule (the cores that never finish
		// poll until the wait has seen the failure): the first ones are enumerated. Interpreter: the
		// deep recursions poll hundreds of times before they fail; recursion under cancellation is
		// the subject of the programs recursion / recursion-infinite, here the failure matters.
		p.kmaxVM, p.kmaxTree = min(p.kmaxVM, 36), min(p.kmaxTree, 120)
		if strings.HasPrefix(p.name, "fatal-spawn-inf-") {
			p.kmaxVM = 24
		}
	}
	return p
}

// ---------------------------------------------------------------------------------------------
// seed-chosen members of the two families: the program text travels in the payload

// genProgram: the program of a payload that carries its own source.
func genProgram(p Payload) program {
	return program{name: p.Name, src: p.Src, mods: p.Mods, infinite: p.Infinite, multi: p.Multi, ownFails: p.OwnFails}
}

func randElem(typ string, rng *fw.Rng) string {
	switch typ {
	case "int":
		return fmt.Sprint(rng.Intn(41) - 20)
	case "float":
		return fmt.Sprintf("%d.%d", rng.Intn(21)-10, rng.Intn(4)*25)
	}
	n := rng.Intn(4)
	b := make([]byte, n)
	for i := range b {
		b[i] = "abcXY z"[rng.Intn(7)]
	}
	return "\"" + string(b) + "\""
}

func randList(typ string, rng *fw.Rng) string {
	n := 2 + rng.Intn(11)
	el := make([]string, n)
	for i := range el {
		if i > 0 && rng.Chance(1, 5) {
			el[i] = el[rng.Intn(i)]
		} else {
			el[i] = randElem(typ, rng)
		}
	}
	return "[" + strings.Join(el, ", ") + "]"
}

// genCases: per seed, two random-list sort programs per element type (both back ends, the first
// cancellation points) and fatal-error programs drawn from the full kind x shape x name-length
// product with name lengths up to 48.
func genCases(tier string, seed uint64) []fw.Case {
	rng := fw.NewRng(seed ^ 0xC10FA111E5)
	var cases []fw.Case
	add := func(pg program, vmK, treeK int) {
		for _, be := range []string{"vm", "tree"} {
			kmax := vmK
			if be == "tree" {
				if pg.multi {
					continue
				}
				kmax = treeK
			}
			for k := 1; k <= kmax; k++ {
				end := endModes[(k+len(cases))%len(endModes)]
				cases = append(cases, fw.MkCase(fmt.Sprintf("c10-%s-%s-%s-%d", pg.name, be, end, k), "cancel",
					Payload{Name: pg.name, Src: pg.src, Mods: pg.mods, Infinite: pg.infinite, Multi: pg.multi, OwnFails: pg.ownFails, Backend: be, K: int64(k), End: end}, "generated"))
			}
		}
	}
	rounds := 2
	if tier == "thorough" {
		rounds = 12
	}
	for r := 0; r < rounds; r++ {
		for _, t := range sortTypes {
			a, b := randList(t, rng), randList(t, rng)
			src := "fn main() { let a = " + a + "; a.sort(); println(a); let b = " + b + "; b.sort(); a.concat(b); a.sort(); println(a.join(\"|\"), a.contains(b[0])); }"
			add(program{name: fmt.Sprintf("gen-sort-%s-%d", t, r), src: src}, 3, 26)
		}
		for i := 0; i < 3; i++ {
			shape := fatalShapes[rng.Intn(len(fatalShapes))]
			kind := fatalKinds[rng.Intn(len(fatalKinds))]
			pg := fatalProgram(shape, kind, 8+rng.Intn(41))
			pg.name = "gen-" + pg.name
			add(pg, 4, 12)
		}
	}
	return cases
}
