//go:build verif

package c10

import (
	"fmt"
	"time"
)

// The repository's own blocking builtin: time.sleep of the testing hosts (testing_executor.go for the
// interpreter, testing_executor_vm.go for the VM; both are non-test files of package homescript and the
// second is an anchor of the property). "No program, including ... blocking builtins ..., can outlive
// cancellation" and "stops within a bounded number of steps": a cancellation that arrives while a core
// sits in time.sleep(d) is noticed at the builtin's next look at the context, so the time between two
// looks must not depend on d (a program input).
//
// The programs sleep for a duration no run ever completes (300 s); the context ends at the k-th poll
// as everywhere in this check, which exercises "cancel arrives inside the blocking builtin" for the
// first polls of the sleep, with the usual logical oracle (termination interrupt, no step afterwards,
// no goroutine left, wait returns).
//
// On top of that the counting context watches the period of the polls while it is alive. This is the
// one place of the check where a duration enters a verdict, so it is three-valued and coarse on
// purpose: the builtin looks at the context every 10 ms; the run is reported only if pollGapRun = 3
// CONSECUTIVE gaps between polls each exceeded pollGapBound = 1 s (100 times the period) in one run -
// a machine that stalls a goroutine for a second three times in a row has long tripped the per-case
// watchdog (inconclusive) everywhere else. A single long gap, or a builtin that does not poll at all
// but selects on Done() (one poll, no gaps), yields no verdict from this watch; the case is then
// decided by the logical oracle alone. When the run of long gaps is seen the context ends itself so
// that the case finishes.
const (
	pollGapBound = time.Second
	pollGapRun   = 3
)

var hostSleepPrograms = []program{
	{name: "host-sleep-long", hostSleep: true, infinite: true, kmaxVM: 9, kmaxTree: 16,
		src: `fn main() { println("a"); time.sleep(300.0); println("b"); }`},
	{name: "host-sleep-long-try", hostSleep: true, infinite: true, kmaxVM: 9, kmaxTree: 20,
		src: `fn main() { try { throw("x"); } catch e { time.sleep(300.0); } println("b"); }`},
	{name: "host-sleep-long-spawned", hostSleep: true, infinite: true, multi: true, kmaxVM: 12,
		src: "fn nap(d: float) { time.sleep(d); }\nfn main() { spawn nap(300.0); spawn nap(400.0); time.sleep(300.0); }"},
}

// gapDescribe must be called with mu held.
func (c *countingCtx) gapDescribe() string {
	return fmt.Sprintf("%d consecutive gaps between two polls of the context each exceeded %s (longest %s, %d gaps seen, %d polls; the builtin's period is 10 ms whatever the duration slept)", c.bigRun, pollGapBound, c.maxGap.Round(time.Millisecond), c.gaps, c.polls)
}
