package c10

import (
	"fmt"
	"strings"

	"hv/fw"
)

// Two further families.
//
//   - index expressions at the edges of their base (indexPrograms): `base[index]` is evaluated by Go
//     code of the repository between two polls (wrapping of negative indices, bounds check). Every base
//     shape (empty, drained, one element, several, nested empty; lists and strings) x every edge index
//     (-1, below -len, len, the valid wrapping ones) x every use (value, assignment target, compound
//     assignment target), on both back ends. An index error is fatal, so each failing combination is a
//     program of its own.
//   - spawn sequences (seqPrograms): the order in which cores are spawned and finish. Main spawns short
//     jobs and one long-running core in different orders; with the schedule "settle" (Payload.Settle)
//     the wait has collected the finished cores before the next spawn, and the moment of cancellation is
//     an event (Payload.AfterExit: n cores have finished) instead of a poll index.

// ---------------------------------------------------------------------------------------------
// index expressions

type indexBase struct {
	name, decl string
	expr       string // the indexed expression
	n          int    // its length at run time
	list, ints bool
}

var indexBases = []indexBase{
	{name: "list-empty", decl: "let b: [int] = [];", expr: "b", n: 0, list: true, ints: true},
	{name: "list-drained", decl: "let b = [3, 2]; println(b.pop(), b.pop());", expr: "b", n: 0, list: true, ints: true},
	{name: "list-3", decl: "let b = [1, 2, 3];", expr: "b", n: 3, list: true, ints: true},
	{name: "list-nested-empty", decl: "let e: [int] = []; let b = [[1], e];", expr: "b[1]", n: 0, list: true, ints: true},
	{name: "str-empty", decl: "let b = \"\";", expr: "b", n: 0},
	{name: "str-3", decl: "let b = \"abc\";", expr: "b", n: 3},
}

// indexEdges: the index as a function of the length.
var indexEdges = []struct {
	name string
	of   func(n int) int
}{
	{"last", func(n int) int { return -1 }},
	{"under", func(n int) int { return -(n + 2) }},
	{"over", func(n int) int { return n }},
}

var indexUses = []string{"value", "assign", "compound"}

// indexProgram: one index expression; the index is computed at run time (i) or a literal.
func indexProgram(b indexBase, edge int, use string, literal bool) program {
	idx := indexEdges[edge].of(b.n)
	decl, at := fmt.Sprintf("let i = %d - 1; ", idx+1), "i"
	if literal {
		decl, at = "", fmt.Sprint(idx)
	}
	var stmt string
	switch {
	case use == "assign" && b.list:
		stmt = fmt.Sprintf("%s[%s] = 5; println(b);", b.expr, at)
	case use == "compound" && b.list && b.ints:
		stmt = fmt.Sprintf("%s[%s] += 5; println(b);", b.expr, at)
	default:
		use = "value"
		stmt = fmt.Sprintf("let v = %s[%s]; println(v);", b.expr, at)
	}
	name := fmt.Sprintf("index-%s-%s-%s", b.name, indexEdges[edge].name, use)
	if literal {
		name += "-lit"
	}
	return program{name: name, sparseTree: true, kmaxVM: 2, kmaxTree: 24,
		src: "fn main() { " + b.decl + " " + decl + "println(\"before\"); " + stmt + " println(\"after\"); }"}
}

// indexPrograms: every (base, edge) pair; uses and literal / computed indices rotate over the pairs
// (genIndexCases draws from the full product by seed). Plus one program with all valid wrapping
// indices.
var indexPrograms = func() []program {
	var ps []program
	for bi, b := range indexBases {
		for ei := range indexEdges {
			ps = append(ps, indexProgram(b, ei, indexUses[(bi+ei)%len(indexUses)], (bi+2*ei)%3 == 0))
		}
	}
	ps = append(ps, program{name: "index-wrap-valid", kmaxVM: 6, kmaxTree: 120, sparseTree: true,
		src: "fn main() {\n" +
			"    let l = [1, 2, 3]; let s = \"abc\"; let one = [7]; let n = 0;\n" +
			"    println(l[-1], l[-2], l[-3], l[0], l[2], s[-1], s[-3], s[0], s[2], one[-1], one[0]);\n" +
			"    l[-1] = 10; l[-3] += 4; one[-1] -= 7; println(l, one);\n" +
			"    while n < 3 { n += 1; l[0 - n] += n; let c = s[0 - n]; println(c, l[n - 1]); }\n" +
			"    let nested = [[1, 2], [3]]; nested[-1][-1] = 9; nested[-2][-2] += 1; println(nested, nested[-1][0]);\n" +
			"}"})
	return ps
}()

// genIndexCases: per seed, members of the full base x edge x use x literal product (the program text
// travels in the payload), both back ends, the first cancellation points.
func genIndexCases(tier string, seed uint64) []fw.Case {
	rng := fw.NewRng(seed ^ 0xC101DE7)
	n := 4
	if tier == "thorough" {
		n = 24
	}
	var cases []fw.Case
	for r := 0; r < n; r++ {
		pg := indexProgram(indexBases[rng.Intn(len(indexBases))], rng.Intn(len(indexEdges)), indexUses[rng.Intn(len(indexUses))], rng.Chance(1, 2))
		pg.name = fmt.Sprintf("gen-%d-%s", r, pg.name)
		for _, be := range []string{"vm", "tree"} {
			ks := []int{1, 2, 3}
			if be == "tree" {
				ks = []int{1, 5, 9 + rng.Intn(8), 20 + rng.Intn(10), 45}
			}
			for _, k := range ks {
				end := endModes[(k+len(cases))%len(endModes)]
				cases = append(cases, fw.MkCase(fmt.Sprintf("c10-%s-%s-%s-%d", pg.name, be, end, k), "cancel",
					Payload{Name: pg.name, Src: pg.src, Backend: be, K: int64(k), End: end}, "generated"))
			}
		}
	}
	return cases
}

// ---------------------------------------------------------------------------------------------
// spawn sequences

// seqProgram: main performs ops in order - 's' spawns the next short job, 'l' spawns the long-running
// core, 'j' waits until every job spawned so far has reported its end through its global flag - and
// then ends (mainLoops: blocks for ever instead). long: "sleep-loop" (endless, inside the blocking
// builtin), "spin" (endless, stepping), "sleep-fin" (finite, outlives everything else).
func seqProgram(ops, long string, mainLoops bool) program {
	jobs := strings.Count(ops, "s")
	var sb strings.Builder
	for j := 1; j <= jobs; j++ {
		fmt.Fprintf(&sb, "let d%d = false;\n", j)
	}
	for j := 1; j <= jobs; j++ {
		fmt.Fprintf(&sb, "fn job%d(n: int) { let x = n * 2; println(\"job\", x); d%d = true; }\n", j, j)
	}
	p := program{name: "seq-" + ops + "-" + long, multi: true, kmaxVM: 10, eventOnly: true}
	p.finite = jobs + 1
	switch long {
	case "sleep-loop":
		sb.WriteString("fn watch(n: int) { loop { vsleep(2000); } }\n")
		p.infinite = true
	case "spin":
		sb.WriteString("fn watch(n: int) { loop { let x = n + 1; } }\n")
		p.infinite = true
	case "sleep-fin":
		sb.WriteString("fn watch(n: int) { let i = 0; while i < n { i += 1; vsleep(2000); } println(\"watch\"); }\n")
		p.kmaxVM = 24
	default:
		panic("c10: long kind " + long)
	}
	sb.WriteString("fn main() {")
	j := 0
	for _, op := range ops {
		switch op {
		case 's':
			j++
			fmt.Fprintf(&sb, " spawn job%d(%d);", j, j)
		case 'l':
			sb.WriteString(" spawn watch(12);")
		case 'j':
			for w := 1; w <= j; w++ {
				fmt.Fprintf(&sb, " while !d%d { }", w)
			}
		default:
			panic("c10: seq op")
		}
	}
	if mainLoops {
		p.name += "-mainloops"
		p.infinite = true
		p.finite--
		sb.WriteString(" loop { vsleep(2000); } }")
	} else {
		sb.WriteString(" println(\"main\"); }")
	}
	p.src = sb.String()
	return p
}

var seqPrograms = []program{
	seqProgram("sljsj", "sleep-loop", false),
	seqProgram("lsjsj", "sleep-loop", false),
	seqProgram("sslj", "sleep-loop", false),
	seqProgram("sjlsjsj", "spin", false),
	seqProgram("slsj", "sleep-fin", false),
	seqProgram("sljs", "sleep-loop", true),
}

// eventCases: programs with several cores, the context ended when n cores have finished (n = 1 .. the
// number of cores that finish by themselves), free and settled schedule, the end modes rotating.
func eventCases(tier string, seed uint64) []fw.Case {
	var cases []fw.Case
	for pi, p := range programs {
		if !p.multi || p.finite == 0 {
			continue
		}
		for n := 1; n <= p.finite; n++ {
			for si, settle := range []bool{true, false} {
				modes := []string{endModes[(pi+n+si+int(seed%4))%len(endModes)]}
				if tier == "thorough" {
					modes = endModes
				}
				for _, mode := range modes {
					id := fmt.Sprintf("c10-%s-vm-%s-exit%d", p.name, mode, n)
					tags := []string{"end-" + mode, "cancel-at-exit"}
					if settle {
						id += "-settle"
						tags = append(tags, "settle")
					}
					cases = append(cases, fw.MkCase(id, "cancel-event", Payload{Prog: pi, Backend: "vm", K: noPollCount, End: mode, Settle: settle, AfterExit: n}, tags...))
				}
			}
		}
	}
	return cases
}
