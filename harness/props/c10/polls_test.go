//go:build verif

package c10

import (
	"context"
	"fmt"
	"os"
	"testing"

	"github.com/smarthome-go/homescript/v3/homescript/runtime"

	"hv/drive"
)

// TestMeasurePolls prints the measuredPolls table of families.go (polls of the uncancelled run of
// every program of the generated families). Development aid, not part of the check:
//
//	C10_MEASURE=1 go test -tags verif -run TestMeasurePolls ./props/c10/
func TestMeasurePolls(t *testing.T) {
	if os.Getenv("C10_MEASURE") == "" {
		t.Skip("set C10_MEASURE=1")
	}
	var list []program
	list = append(list, fatalPrograms...)
	list = append(list, memberPrograms...)
	for _, pg := range list {
		src := pg.sources()
		ao := drive.Analyze(src, "main", true)
		if ao.Errors > 0 {
			t.Errorf("%s rejected: %s\n%s", pg.name, ao.ErrorSummary(), pg.render())
			continue
		}
		vmPolls, treePolls := int64(0), int64(0)
		var vmOut, treeOut drive.Outcome
		limit := int64(1 << 60)
		if pg.infinite {
			// an infinite program has no last poll: enumerate the first ones
			fmt.Printf("\t%q: {%d, %d}, // infinite\n", pg.name, 12, 45)
			continue
		}
		{
			prog, err := drive.Compile(ao.Modules, "main")
			if err != nil {
				t.Errorf("%s: %v", pg.name, err)
				continue
			}
			installHooks()
			cc := newCountingCtx(limit)
			st := &runState{cc: cc, after: map[uint]int64{}}
			cur.Store(st)
			var ctx context.Context = cc
			var cancel context.CancelFunc = cc.cancelNow
			ex := drive.VMExec{L: &drive.Log{}, Src: src}
			hr := hostRun(prog, ex, &ctx, &cancel, runtime.CoreLimits{CallStackMaxSize: 100, StackMaxSize: 500, MaxMemorySize: 10000}, st, cc, cc.arm)
			vmOut = hr.out
			cc.mu.Lock()
			vmPolls = cc.polls
			cc.mu.Unlock()
		}
		if !pg.multi {
			cc := newCountingCtx(limit)
			cc.arm()
			treeOut = runTreeRaw(ao, src, cc, 100)
			treePolls = cc.polls
		}
		fmt.Printf("\t%q: {%d, %d}, // vm: %s | tree: %s\n", pg.name, vmPolls, treePolls, drive.FirstLine(vmOut.String()), drive.FirstLine(treeOut.String()))
	}
}
