package c10

// Multi-module programs: the run of a program that imports user modules starts with the
// initialisation of those modules (interpreter: execModule on the first `import … from m`, nested
// for the modules m imports itself; VM: the @init routine run by NewVM, which also executes the
// `import x from <builtin module>` items of every module into the one global table all modules and
// cores share). The property quantifies over "every cancellation point … up to program completion",
// so the polls that fall into module initialisation, into functions of another module and into
// builtins that several modules import are cancellation points like any other.
//
// Families (each: finite and infinite variants, both back ends unless stated):
//   - work in the global initialisers of an imported module (one level, nested three levels, diamond)
//   - the same builtin imported by several modules / distinct builtins per module / several builtins
//   - the loop (empty, working, throwing, sleeping) lives in an imported function
//   - cores spawned on imported functions that share the imported module's globals (VM)
//   - a module initialiser that fails by itself after some work (interpreter; see program.treeOnly)
//
// Global initialisers must be constant expressions (literals, lists, objects, operators, index of a
// constant), every module needs a `main`.

const modConsts = `import assert_eq from testing;

let SQUARES = [0 * 0, 1 * 1, 2 * 2, 3 * 3, 4 * 4, 5 * 5, 6 * 6, 7 * 7];
let OFFSET = (20 + 22) * 2 - 42;
let NAMES = ["a" + "b", "c" + "d" + "e", "f"];
let CFG = new { name: "consts", depth: 1 + 1, ratio: 1.5 * 2.0, enabled: !false };
let CALLS = 0;

pub fn answer() -> int {
    CALLS += 1;
    assert_eq(CFG.depth, 2);
    OFFSET + SQUARES[CALLS % 8] + NAMES.len()
}

pub fn calls() -> int { CALLS }

fn main() {}
`

const modDeep = `import assert_eq from testing;

let TABLE = [1, 2, 3, 4 + 5, (6 * 7) - 1, 8 / 2, 9 % 4];
let N = [10, 20, 30][1] + 2 * 3;
let META = new { name: "deep", tags: ["x" + "y", "z"], limits: [1 + 1, 2 + 2, 3 + 3] };

pub fn base(n: int) -> int { assert_eq(n, n); N + n + META.limits[1] }
pub fn bump() -> int { N += 1; TABLE.push(N); N }

fn main() {}
`

const modMid = `import assert_eq from testing;
import { base, bump } from deep;

let WEIGHTS = [0.5 * 2.0, 1.5 + 1.5, 2.0 / 4.0, 3.0 - 1.0];
let START = 100 - 58;
let COUNT = 0;

pub fn step() -> int {
    COUNT += 1;
    assert_eq(COUNT, COUNT);
    START + bump() + base(COUNT) + WEIGHTS.len()
}

fn main() {}
`

// a module without initialisers and without imports (control for the shared-builtin family)
const modPlain = `pub fn check(n: int) -> int { let m = n; m + 1 }

fn main() {}
`

// the same builtin as the importing module
const modSameBuiltin = `import assert_eq from testing;

pub fn check(n: int) -> int { assert_eq(n, n); n + 1 }

fn main() {}
`

// other builtins than the importing module
const modOtherBuiltins = `import { any_func, any_list } from testing;

pub fn check(n: int) -> int { let a = any_func() as int; n + any_list.len() + a - a }

fn main() {}
`

// the loops live in the imported module
const modLoops = `import assert_eq from testing;

let ROUNDS = 0;
let LOG = [0];

pub fn spin() { loop { } }
pub fn churn() { loop { ROUNDS += 1; assert_eq(ROUNDS, ROUNDS); let l = [ROUNDS, ROUNDS + 1]; l.push(ROUNDS); } }
pub fn nap() { loop { vsleep(3); ROUNDS += 1; } }
pub fn flaky(n: int) { ROUNDS += 1; if n % 2 == 0 { throw("flaky"); } }
pub fn count(n: int) -> int { let i = 0; while i < n { i += 1; ROUNDS += 1; } LOG.push(i); ROUNDS }

fn main() {}
`

const modLeft = `import assert_eq from testing;
import { touch, seen } from shared;

let LEFT = [1 + 1, 2 + 2, 3 + 3];

pub fn left(n: int) -> int { assert_eq(LEFT.len(), 3); touch(n) + LEFT[n % 3] }
pub fn left_seen() -> int { seen() }

fn main() {}
`

const modRight = `import assert_eq from testing;
import { touch, seen } from shared;

let RIGHT = new { a: 1 * 2, b: 3 * 4, c: [5 - 1, 6 - 2] };

pub fn right(n: int) -> int { assert_eq(RIGHT.a, 2); touch(n) + RIGHT.c[n % 2] }
pub fn right_seen() -> int { seen() }

fn main() {}
`

const modShared = `let SEEN = 0;
let HISTORY = [0, 0 + 0, 0 * 1];
let LIMITS = new { lo: 0 - 5, hi: 5 * 5 };

pub fn touch(n: int) -> int { SEEN += 1; HISTORY.push(n); SEEN + LIMITS.hi }
pub fn seen() -> int { SEEN }

fn main() {}
`

// the initialisation fails by itself (index out of bounds) after some of the initialisers ran
const modBrokenInit = `let A = [1 + 1, 2 * 2, 3 - 3, 4 / 2];
let B = new { x: 1 + 2, y: [3, 4 + 5] };
let C = [1, 2][7];
let D = [6 * 6, 7 * 7];

pub fn get() -> int { A[0] + B.x + C + D[1] }

fn main() {}
`

// workers for spawned cores; they share the module's globals and a builtin with the spawning module.
// The cores only READ the global list: concurrent mutation of a container reachable from a global
// is a data race of the unchanged tree (DESIGN.md Appendix A no. 29, KF-global-container-race, owned
// by C17) and would make the race log of this check non-empty for a reason that is not cancellation.
const modWorkers = `import assert_eq from testing;

let DONE = 0;
let TRACE = [0, 1 + 1, 2 * 2];

pub fn work(n: int) { let i = 0; while i < n { i += 1; assert_eq(i, i); } DONE += 1; println("w", n + TRACE[n % 3]); }
pub fn forever(n: int) { loop { let x = n + DONE; assert_eq(x, x); } }
pub fn bad(n: int) { let i = 0; while i < n { i += 1; } let l = [1]; println(l[7]); }
pub fn finished() -> int { DONE }

fn main() {}
`

var modulePrograms = []program{
	// --- work in the initialisers of imported modules
	{name: "mod-init", src: "import { answer, calls } from consts;\n\nlet LOCAL = [1 + 2, 3 * 4];\n\nfn main() { let sum = 0; for i in 0..4 { sum = sum + answer() + i + LOCAL[i % 2]; } println(sum, calls()); }",
		mods: map[string]string{"consts": modConsts}, kmaxVM: 8, kmaxTree: 230},
	{name: "mod-init-nested", src: "import step from mid;\nimport bump from deep;\nimport assert_eq from testing;\n\nfn main() { let sum = 0; for i in 0..4 { sum = sum + step() + i + bump(); } assert_eq(sum, sum); println(sum); }",
		mods: map[string]string{"mid": modMid, "deep": modDeep}, kmaxVM: 12, kmaxTree: 365},
	{name: "mod-init-diamond", src: "import { left, left_seen } from lmod;\nimport { right, right_seen } from rmod;\n\nfn main() { let sum = 0; for i in 0..3 { sum += left(i) + right(i); } println(sum, left_seen(), right_seen()); }",
		mods: map[string]string{"lmod": modLeft, "rmod": modRight, "shared": modShared}, kmaxVM: 10, kmaxTree: 286},
	{name: "mod-init-only", src: "import answer from consts;\nimport step from mid;\n\nfn main() { println(\"up\"); }",
		mods: map[string]string{"consts": modConsts, "mid": modMid, "deep": modDeep}, kmaxVM: 3, kmaxTree: 124},
	{name: "mod-init-then-loop", src: "import step from mid;\n\nfn main() { loop { let s = step(); } }",
		mods: map[string]string{"mid": modMid, "deep": modDeep}, infinite: true, kmaxVM: 20, kmaxTree: 160},
	{name: "mod-init-fails", src: "import get from broken;\n\nfn main() { println(get()); }",
		mods: map[string]string{"broken": modBrokenInit}, treeOnly: true, kmaxTree: 30},
	{name: "mod-init-fails-nested", src: "import answer from consts;\nimport get from broken;\nimport step from mid;\n\nfn main() { println(answer() + get() + step()); }",
		mods: map[string]string{"consts": modConsts, "broken": modBrokenInit, "mid": modMid, "deep": modDeep}, treeOnly: true, kmaxTree: 84},

	// --- builtins imported by several modules
	{name: "mod-same-builtin-loop", src: "import check from lib;\nimport assert_eq from testing;\n\nfn main() { let n = 0; loop { n = check(n); assert_eq(n, n); } }",
		mods: map[string]string{"lib": modSameBuiltin}, infinite: true, kmaxVM: 20, kmaxTree: 80},
	{name: "mod-same-builtin-finite", src: "import assert_eq from testing;\nimport check from lib;\n\nfn main() { let n = 0; while n < 10 { n = check(n); assert_eq(n, n); } println(n); }",
		mods: map[string]string{"lib": modSameBuiltin}, kmaxVM: 10, kmaxTree: 253},
	{name: "mod-other-builtins-loop", src: "import check from lib;\nimport assert_eq from testing;\n\nfn main() { let n = 0; loop { n = check(n); assert_eq(n, n); } }",
		mods: map[string]string{"lib": modOtherBuiltins}, infinite: true, kmaxVM: 20, kmaxTree: 80},
	{name: "mod-no-builtin-loop", src: "import check from lib;\nimport assert_eq from testing;\n\nfn main() { let n = 0; loop { n = check(n); assert_eq(n, n); } }",
		mods: map[string]string{"lib": modPlain}, infinite: true, kmaxVM: 20, kmaxTree: 80},
	{name: "builtins-single-module", src: "import { assert_eq, any_func, any_list } from testing;\n\nfn main() { let n = 0; while n < 10 { n += 1; assert_eq(n, n); let a = any_func() as int; n += any_list.len() - 1 + a - a; } println(n); }",
		kmaxVM: 12, kmaxTree: 303},

	// --- the loop lives in an imported function
	{name: "mod-lib-spins", src: "import spin from loops;\n\nfn main() { println(\"go\"); spin(); }",
		mods: map[string]string{"loops": modLoops}, infinite: true, kmaxVM: 10, kmaxTree: 30},
	{name: "mod-lib-churns", src: "import churn from loops;\nimport assert_eq from testing;\n\nfn main() { assert_eq(1, 1); churn(); }",
		mods: map[string]string{"loops": modLoops}, infinite: true, kmaxVM: 20, kmaxTree: 80},
	{name: "mod-lib-naps", src: "import nap from loops;\n\nfn main() { nap(); }",
		mods: map[string]string{"loops": modLoops}, infinite: true, kmaxVM: 30, kmaxTree: 60},
	{name: "mod-lib-throws", src: "import flaky from loops;\nimport assert_eq from testing;\n\nfn main() { let attempts = 0; loop { try { flaky(attempts + 1); flaky(attempts); } catch e { attempts += 1; assert_eq(e.message, \"flaky\"); } } }",
		mods: map[string]string{"loops": modLoops}, infinite: true, kmaxVM: 30, kmaxTree: 120},
	{name: "mod-lib-counts", src: "import count from loops;\n\nfn main() { let t = 0; for i in 0..3 { t = count(8 + i); } println(t); }",
		mods: map[string]string{"loops": modLoops}, kmaxVM: 16, kmaxTree: 300},

	// --- cores spawned on imported functions (VM)
	{name: "mod-spawn-inf", src: "import forever from workers;\nimport assert_eq from testing;\n\nfn main() { spawn forever(1); spawn forever(2); loop { assert_eq(1, 1); } }",
		mods: map[string]string{"workers": modWorkers}, multi: true, infinite: true, kmaxVM: 30},
	{name: "mod-spawn-mixed", src: "import { work, finished } from workers;\nimport assert_eq from testing;\n\nfn main() { spawn work(10); spawn work(100); spawn work(30); let j = 0; while j < 40 { j += 1; assert_eq(j, j); } println(\"main\", finished() >= 0); }",
		mods: map[string]string{"workers": modWorkers}, multi: true, kmaxVM: 80},
	{name: "mod-spawn-fail", src: "import { forever, bad } from workers;\nimport check from lib;\n\nfn main() { spawn forever(1); spawn bad(400); spawn forever(2); let n = 0; loop { n = check(n); } }",
		mods: map[string]string{"workers": modWorkers, "lib": modSameBuiltin}, multi: true, infinite: true, kmaxVM: 50},
}
