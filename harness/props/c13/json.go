package c13

import (
	"bytes"
	"context"
	"encoding/json"
	"fmt"
	"sort"
	"strconv"
	"strings"

	herrors "github.com/smarthome-go/homescript/v3/homescript/errors"
	ivalue "github.com/smarthome-go/homescript/v3/homescript/interpreter/value"
	vvalue "github.com/smarthome-go/homescript/v3/homescript/runtime/value"

	"hv/drive"
	vu "hv/valuni"
)

// refFromJSON is the reference typed JSON reader: what value of type t a JSON document denotes.
// null <-> none, absent object key under an option type <-> none, numbers under int must be
// integers, under float any number; untyped any-object content: integer literal -> int, other
// number -> float, object -> object.
func refFromJSON(raw any, t vu.Type) (vu.Val, error) {
	switch t.K {
	case vu.TOpt:
		if raw == nil {
			return vu.NoneV(), nil
		}
		in, err := refFromJSON(raw, *t.Elem)
		if err != nil {
			return vu.Val{}, err
		}
		return vu.SomeV(in), nil
	case vu.TInt:
		n, ok := raw.(json.Number)
		if !ok {
			return vu.Val{}, fmt.Errorf("expected an integer, found %T", raw)
		}
		i, err := strconv.ParseInt(n.String(), 10, 64)
		if err != nil {
			return vu.Val{}, fmt.Errorf("expected an integer, found %s", n)
		}
		return vu.IntV(i), nil
	case vu.TFloat:
		n, ok := raw.(json.Number)
		if !ok {
			return vu.Val{}, fmt.Errorf("expected a number, found %T", raw)
		}
		f, err := strconv.ParseFloat(n.String(), 64)
		if err != nil {
			return vu.Val{}, err
		}
		return vu.FloatV(f), nil
	case vu.TBool:
		b, ok := raw.(bool)
		if !ok {
			return vu.Val{}, fmt.Errorf("expected a bool, found %T", raw)
		}
		return vu.BoolV(b), nil
	case vu.TStr:
		s, ok := raw.(string)
		if !ok {
			return vu.Val{}, fmt.Errorf("expected a string, found %T", raw)
		}
		return vu.StrV(s), nil
	case vu.TList:
		l, ok := raw.([]any)
		if !ok {
			return vu.Val{}, fmt.Errorf("expected an array, found %T", raw)
		}
		out := vu.ListV()
		for i, e := range l {
			x, err := refFromJSON(e, *t.Elem)
			if err != nil {
				return vu.Val{}, fmt.Errorf("[%d]: %w", i, err)
			}
			out.Elems = append(out.Elems, x)
		}
		return out, nil
	case vu.TObj:
		m, ok := raw.(map[string]any)
		if !ok {
			return vu.Val{}, fmt.Errorf("expected an object, found %T", raw)
		}
		var kvs []vu.KV
		for _, f := range t.Fields {
			e, present := m[f.Name]
			if !present {
				if f.T.K == vu.TOpt {
					kvs = append(kvs, vu.KV{K: f.Name, V: vu.NoneV()})
					continue
				}
				return vu.Val{}, fmt.Errorf("key %q missing", f.Name)
			}
			x, err := refFromJSON(e, f.T)
			if err != nil {
				return vu.Val{}, fmt.Errorf(".%s: %w", f.Name, err)
			}
			kvs = append(kvs, vu.KV{K: f.Name, V: x})
		}
		for k := range m {
			found := false
			for _, f := range t.Fields {
				if f.Name == k {
					found = true
				}
			}
			if !found {
				return vu.Val{}, fmt.Errorf("unexpected key %q", k)
			}
		}
		return vu.ObjV(kvs...), nil
	case vu.TAnyObj:
		m, ok := raw.(map[string]any)
		if !ok {
			return vu.Val{}, fmt.Errorf("expected an object, found %T", raw)
		}
		var kvs []vu.KV
		keys := make([]string, 0, len(m))
		for k := range m {
			keys = append(keys, k)
		}
		sort.Strings(keys)
		for _, k := range keys {
			x, err := refUntyped(m[k])
			if err != nil {
				return vu.Val{}, err
			}
			kvs = append(kvs, vu.KV{K: k, V: x})
		}
		return vu.AnyObjV(kvs...), nil
	}
	return vu.Val{}, fmt.Errorf("type %s has no JSON form", t.Src())
}

func refUntyped(raw any) (vu.Val, error) {
	switch x := raw.(type) {
	case nil:
		return vu.NoneV(), nil
	case bool:
		return vu.BoolV(x), nil
	case string:
		return vu.StrV(x), nil
	case json.Number:
		if i, err := strconv.ParseInt(x.String(), 10, 64); err == nil {
			return vu.IntV(i), nil
		}
		f, err := strconv.ParseFloat(x.String(), 64)
		return vu.FloatV(f), err
	case []any:
		out := vu.ListV()
		for _, e := range x {
			v, err := refUntyped(e)
			if err != nil {
				return vu.Val{}, err
			}
			out.Elems = append(out.Elems, v)
		}
		return out, nil
	case map[string]any:
		var kvs []vu.KV
		for k, e := range x {
			v, err := refUntyped(e)
			if err != nil {
				return vu.Val{}, err
			}
			kvs = append(kvs, vu.KV{K: k, V: v})
		}
		return vu.ObjV(kvs...), nil
	}
	return vu.Val{}, fmt.Errorf("unknown JSON node %T", raw)
}

var jsonCtx = context.Background()

// memberToJSON calls the to_json member of the value built in the library.
func memberToJSON(lib string, v vu.Val) (text string, err error) {
	defer func() {
		if r := recover(); r != nil {
			err = fmt.Errorf("go panic: %v", r)
		}
	}()
	ctx := jsonCtx
	if lib == "vm" {
		x := vu.ToVM(v)
		fields, _ := (*x).Fields()
		f, ok := fields["to_json"]
		if !ok {
			return "", fmt.Errorf("no to_json member")
		}
		res, intr := (*f).(vvalue.ValueBuiltinFunction).Callback(drive.VMExec{L: &drive.Log{}}, &ctx, herrors.Span{})
		if intr != nil {
			return "", fmt.Errorf("interrupt: %s", (*intr).Message())
		}
		return (*res).(vvalue.ValueString).Inner, nil
	}
	x := vu.ToTree(v)
	fields, _ := (*x).Fields()
	f, ok := fields["to_json"]
	if !ok {
		return "", fmt.Errorf("no to_json member")
	}
	res, intr := (*f).(ivalue.ValueBuiltinFunction).Callback(drive.TreeExec{L: &drive.Log{}}, &ctx, herrors.Span{})
	if intr != nil {
		return "", fmt.Errorf("interrupt: %s", (*intr).Message())
	}
	return (*res).(ivalue.ValueString).Inner, nil
}

// memberParseUnder calls text.parse_json() and casts the result to t (explicit: `as t`, otherwise
// the annotated-let flavour). rejected carries the rejection message.
func memberParseUnder(lib, text string, t vu.Type, explicit bool) (back vu.Val, rejected string, err error) {
	defer func() {
		if r := recover(); r != nil {
			err = fmt.Errorf("go panic: %v", r)
		}
	}()
	ctx := jsonCtx
	at := vu.AstType(t)
	if lib == "vm" {
		s := vvalue.NewValueString(text)
		fields, _ := (*s).Fields()
		res, intr := (*fields["parse_json"]).(vvalue.ValueBuiltinFunction).Callback(drive.VMExec{L: &drive.Log{}}, &ctx, herrors.Span{})
		if intr != nil {
			return vu.Val{}, "parse_json: " + (*intr).Message(), nil
		}
		c, cerr := vvalue.DeepCast(*res, at, herrors.Span{}, explicit)
		if cerr != nil {
			return vu.Val{}, cerr.Message(), nil
		}
		b, e := vu.FromVM(*c)
		return b, "", e
	}
	s := ivalue.NewValueString(text)
	fields, _ := (*s).Fields()
	res, intr := (*fields["parse_json"]).(ivalue.ValueBuiltinFunction).Callback(drive.TreeExec{L: &drive.Log{}}, &ctx, herrors.Span{})
	if intr != nil {
		return vu.Val{}, "parse_json: " + (*intr).Message(), nil
	}
	c, cerr := ivalue.DeepCast(*res, at, herrors.Span{}, explicit)
	if cerr != nil {
		return vu.Val{}, (*cerr).Message(), nil
	}
	b, e := vu.FromTree(*c)
	return b, "", e
}

// goTypedRoundTrip: MarshalValue -> encoding/json -> TypeAwareUnmarshalValue of the VM library.
func goTypedRoundTrip(v vu.Val, t vu.Type) (back vu.Val, err error) {
	defer func() {
		if r := recover(); r != nil {
			err = fmt.Errorf("go panic: %v", r)
		}
	}()
	m, _ := vvalue.MarshalValue(*vu.ToVM(v), false)
	b, e := json.Marshal(m)
	if e != nil {
		return vu.Val{}, e
	}
	var raw any
	if e := json.Unmarshal(b, &raw); e != nil {
		return vu.Val{}, e
	}
	res := vvalue.TypeAwareUnmarshalValue(raw, vu.AstType(t))
	if res == nil {
		return vu.Val{}, fmt.Errorf("nil result")
	}
	return vu.FromVM(*res)
}

func consDetail(cs []string) string {
	// value-level constructs name the detail; the context-level one (interpreter + annotated let +
	// any-object) only when nothing in the value itself is special; cTypedAny shows as a panic
	// with its own signature
	var keep, ctx []string
	for _, c := range cs {
		switch c {
		case cTypedAny:
		case cTreeLetAny:
			ctx = append(ctx, c)
		default:
			keep = append(keep, c)
		}
	}
	if len(keep) == 0 {
		keep = ctx
	}
	if len(keep) == 0 {
		return "plain"
	}
	return strings.Join(keep, "+")
}

// libView is the abstract value the library really holds after construction (both libraries
// NFC-normalise strings when they build them; the round trip is judged against that).
func libView(lib string, v vu.Val) vu.Val {
	if lib == "vm" {
		if b, err := vu.FromVM(*vu.ToVM(v)); err == nil {
			return b
		}
	} else if b, err := vu.FromTree(*vu.ToTree(v)); err == nil {
		return b
	}
	return v
}

func (j *judge) json() {
	lib, t := j.p.Lib, j.p.T
	for _, v := range pool(j.p) {
		if !jsonCarries(v, t) {
			continue
		}
		base := jsonConstructs(v, t, lib, "")
		if hasAny(base, j.p.Avoid) {
			continue
		}
		held := libView(lib, v)
		j.hashParts = append(j.hashParts, v.String())
		detail := consDetail(base)
		j.evals++
		text, err := memberToJSON(lib, v)
		if err != nil {
			j.fail(lib, "marshal-failed", detail, "to_json of %s failed: %v", v, err)
			continue
		}
		// (a) the text denotes the value
		dec := json.NewDecoder(bytes.NewReader([]byte(text)))
		dec.UseNumber()
		var raw any
		if e := dec.Decode(&raw); e != nil {
			j.fail(lib, "text-invalid", detail, "to_json of %s is not JSON: %q (%v)", v, text, e)
			continue
		}
		ref, rerr := refFromJSON(raw, t)
		if rerr != nil || !structEq(ref, held) {
			j.fail(lib, "text-wrong", detail, "to_json of %s is %s, which under %s denotes %s (%v)", v, clip(text, 200), t.Src(), ref, rerr)
		}
		// (b) parsing back under the type yields an equal value
		for _, explicit := range []bool{true, false} {
			mode := map[bool]string{true: "as", false: "let"}[explicit]
			cs := jsonConstructs(v, t, lib, mode)
			if hasAny(cs, j.p.Avoid) {
				continue
			}
			detail := consDetail(cs)
			j.evals++
			back, rejected, err := memberParseUnder(lib, text, t, explicit)
			switch {
			case err != nil:
				j.fail(lib, "roundtrip-failed:"+mode, detail, "parsing %s back under %s failed: %v", clip(text, 200), t.Src(), err)
			case rejected != "":
				j.fail(lib, "roundtrip-rejected:"+mode, detail, "%s serialises to %s, which is rejected when parsed back under %s (%s): %s", v, clip(text, 200), t.Src(), mode, clip(rejected, 200))
			case !structEq(back, held):
				j.fail(lib, "roundtrip-differs:"+mode, detail, "%s serialises to %s, which parses back under %s (%s) as %s", v, clip(text, 200), t.Src(), mode, back)
			default:
				j.nontrivial = true
				j.cov(lib + ":roundtrip-ok:" + mode)
			}
		}
		// (c) Go API of the VM library
		// (the harness decodes the JSON text with encoding/json into float64 numbers before handing it to
		// TypeAwareUnmarshalValue, so integers beyond 2^53 cannot survive this route by construction:
		// that is a limit of the route, not of /repo, and such values are left out of it)
		if cs := jsonConstructs(v, t, lib, "go-typed"); lib == "vm" && !hasAny(cs, j.p.Avoid) && !hasAny(cs, []string{cJSONBigInt}) {
			detail := consDetail(cs)
			j.evals++
			back, err := goTypedRoundTrip(v, t)
			switch {
			case err != nil && strings.HasPrefix(err.Error(), "go panic"):
				j.fail(lib, "go-typed-panic", normMsg(err.Error()), "MarshalValue -> TypeAwareUnmarshalValue of %s under %s panicked: %v", v, t.Src(), err)
			case err != nil:
				j.fail(lib, "go-typed-failed", detail, "MarshalValue -> TypeAwareUnmarshalValue of %s under %s failed: %v", v, t.Src(), err)
			case !structEq(back, held):
				j.fail(lib, "go-typed-differs", detail, "MarshalValue -> TypeAwareUnmarshalValue of %s under %s yields %s", v, t.Src(), back)
			default:
				j.cov("vm:go-typed-ok")
			}
		}
		if j.sample == nil {
			j.sample = map[string]any{"route": "json", "lib": lib, "type": t.Src(), "value": v.String(), "text": clip(text, 120)}
		}
	}
}
