package c13

import (
	"fmt"

	"golang.org/x/text/unicode/norm"

	vu "hv/valuni"
)

// isEqual builds FRESH instances of a and b in the library and calls a.IsEqual(b). Go panics on
// the calling goroutine are recovered and reported.
func isEqual(lib string, a, b vu.Val) (eq bool, panicMsg string, intr string) {
	defer func() {
		if r := recover(); r != nil {
			panicMsg = fmt.Sprint(r)
		}
	}()
	if lib == "vm" {
		x, y := vu.ToVM(a), vu.ToVM(b)
		e, i := (*x).IsEqual(*y)
		if i != nil {
			intr = (*i).Message()
		}
		return e, "", intr
	}
	x, y := vu.ToTree(a), vu.ToTree(b)
	e, i := (*x).IsEqual(*y)
	if i != nil {
		intr = (*i).Message()
	}
	return e, "", intr
}

// isEqualSelf calls x.IsEqual(x) on one and the same instance.
func isEqualSelf(lib string, a vu.Val) (eq bool, panicMsg string) {
	defer func() {
		if r := recover(); r != nil {
			panicMsg = fmt.Sprint(r)
		}
	}()
	if lib == "vm" {
		x := vu.ToVM(a)
		e, _ := (*x).IsEqual(*x)
		return e, ""
	}
	x := vu.ToTree(a)
	e, _ := (*x).IsEqual(*x)
	return e, ""
}

// modelEq is used only to ATTRIBUTE an observed wrong answer to a specific behaviour (signature
// detail); it never decides a verdict. subset: objects / any-objects compare "every key of a is in
// b with an equal value"; rangeLax: ranges ignore inclusivity.
func modelEq(a, b vu.Val, subset, rangeLax bool) bool {
	if a.K != b.K {
		return false
	}
	switch a.K {
	case vu.VRange:
		if rangeLax {
			return a.RS == b.RS && a.RE == b.RE
		}
		return structEq(a, b)
	case vu.VList:
		if len(a.Elems) != len(b.Elems) {
			return false
		}
		for i := range a.Elems {
			if !modelEq(a.Elems[i], b.Elems[i], subset, rangeLax) {
				return false
			}
		}
		return true
	case vu.VObj, vu.VAnyObj:
		if !subset && len(a.Keys) != len(b.Keys) {
			return false
		}
		for i, k := range a.Keys {
			y, ok := b.Get(k)
			if !ok || !modelEq(a.Vals[i], y, subset, rangeLax) {
				return false
			}
		}
		return true
	case vu.VSome:
		return modelEq(*a.Inner, *b.Inner, subset, rangeLax)
	}
	return structEq(a, b)
}

// composeNFC is the abstract value of v: both value libraries keep strings in NFC (the VM library
// always did, the interpreter library since the fix recorded for KF-c13-vm-string-nfc), so two
// strings denote the same value iff their NFC forms are equal.
func composeNFC(v vu.Val) vu.Val {
	o := v.Copy()
	if o.K == vu.VStr {
		o.S = norm.NFC.String(o.S)
	}
	for i := range o.Elems {
		o.Elems[i] = composeNFC(o.Elems[i])
	}
	for i := range o.Vals {
		o.Vals[i] = composeNFC(o.Vals[i])
	}
	if o.Inner != nil {
		x := composeNFC(*o.Inner)
		o.Inner = &x
	}
	return o
}

// structEq: structural equality of the abstract values (strings modulo NFC).
func structEq(a, b vu.Val) bool { return vu.StructEq(composeNFC(a), composeNFC(b)) }

func eqAttribution(a, b vu.Val, observed bool, t vu.Type) string {
	switch {
	case !observed && !vu.StructEq(a, b) && structEq(a, b):
		return "string-nfc"
	case modelEq(a, b, true, false) == observed && structEq(a, b) != observed:
		return "obj-subset"
	case modelEq(a, b, false, true) == observed && structEq(a, b) != observed:
		return "range-inclusive"
	case modelEq(a, b, true, true) == observed && structEq(a, b) != observed:
		return "obj-subset+range-inclusive"
	}
	return t.Shape()
}

func (j *judge) eq() {
	lib := j.p.Lib
	vals := pool(j.p)
	n := len(vals)
	cons := make([][][]string, n)
	skip := func(i, k int) bool { return len(j.p.Avoid) > 0 && hasAny(cons[i][k], j.p.Avoid) }
	for i := range vals {
		cons[i] = make([][]string, n)
		for k := range vals {
			cons[i][k] = pairConstructs(vals[i], vals[k])
		}
		j.hashParts = append(j.hashParts, vals[i].String())
	}
	obs := make([][]int8, n) // -1 unknown/skipped, 0 false, 1 true
	sawEq, sawNe := false, false
	for i := range vals {
		obs[i] = make([]int8, n)
		for k := range vals {
			obs[i][k] = -1
		}
	}
	for i := range vals {
		// reflexivity on one instance and on a separately built copy
		j.evals++
		if e, pm := isEqualSelf(lib, vals[i]); pm != "" {
			j.fail(lib, "eq-panic", normMsg(pm), "x.IsEqual(x) panicked for x = %s: %s", vals[i], pm)
		} else if !e {
			j.fail(lib, "eq-not-reflexive", j.p.T.Shape(), "x.IsEqual(x) is false for x = %s", vals[i])
		}
		for k := range vals {
			if skip(i, k) {
				continue
			}
			j.evals++
			e, pm, intr := isEqual(lib, vals[i], vals[k])
			want := structEq(vals[i], vals[k])
			switch {
			case pm != "":
				j.fail(lib, "eq-panic", normMsg(pm), "a.IsEqual(b) panicked for a = %s, b = %s: %s", vals[i], vals[k], pm)
			case intr != "":
				j.fail(lib, "eq-interrupt", normMsg(intr), "a.IsEqual(b) raised an interrupt for a = %s, b = %s: %s", vals[i], vals[k], intr)
			default:
				if e {
					obs[i][k] = 1
				} else {
					obs[i][k] = 0
				}
				if e != want {
					if i == k {
						j.fail(lib, "eq-not-reflexive", j.p.T.Shape(), "a == copy(a) is false for a = %s", vals[i])
					} else {
						j.fail(lib, "eq-mismatch", eqAttribution(vals[i], vals[k], e, j.p.T),
							"a == b is %v, but the structural contents are %s: a = %s, b = %s", e, map[bool]string{true: "equal", false: "different"}[want], vals[i], vals[k])
					}
				}
				if want {
					sawEq = true // (i, i) compares two separately built instances
				} else {
					sawNe = true
				}
			}
		}
	}
	// symmetry and transitivity on the observed relation
	for i := 0; i < n; i++ {
		for k := i + 1; k < n; k++ {
			if obs[i][k] >= 0 && obs[k][i] >= 0 {
				j.evals++
				if obs[i][k] != obs[k][i] {
					// attribute by the direction that disagrees with the structural contents
					x, y, o := vals[i], vals[k], obs[i][k] == 1
					if o == structEq(x, y) {
						x, y, o = vals[k], vals[i], obs[k][i] == 1
					}
					j.fail(lib, "eq-asymmetric", eqAttribution(x, y, o, j.p.T),
						"a == b is %v but b == a is %v: a = %s, b = %s", obs[i][k] == 1, obs[k][i] == 1, vals[i], vals[k])
				}
			}
		}
	}
	for a := 0; a < n; a++ {
		for b := 0; b < n; b++ {
			if obs[a][b] != 1 || a == b {
				continue
			}
			for c := 0; c < n; c++ {
				if c == a || c == b || obs[b][c] != 1 || obs[a][c] < 0 {
					continue
				}
				j.evals++
				if obs[a][c] != 1 {
					j.fail(lib, "eq-intransitive", eqAttribution(vals[a], vals[c], false, j.p.T),
						"a == b and b == c but not a == c: a = %s, b = %s, c = %s", vals[a], vals[b], vals[c])
				}
			}
		}
	}
	j.nontrivial = sawNe && sawEq
	j.cov(lib + ":pairs")
	if n > 1 {
		j.sample = map[string]any{"route": "eq", "lib": lib, "type": j.p.T.Src(), "pool": n, "a": vals[0].String(), "b": vals[n-1].String(), "structEq": structEq(vals[0], vals[n-1])}
	}
}
