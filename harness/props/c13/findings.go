package c13

import (
	"encoding/json"
	"fmt"
	"math"
	"strings"
	"unicode/utf16"

	"hv/fw"
	vu "hv/valuni"
)

// ProposedFinding is one line proposed for /verif/known_findings.txt (see FINDINGS.md).
type ProposedFinding struct {
	Status  string // open | fixed
	Name    string // KF name (open) or commit (fixed)
	What    string
	Sig     string
	Tag     string
	Witness fw.Case
}

// asciiJSON escapes every non-ASCII rune as \\uXXXX so that the line survives tools that
// re-normalise Unicode text (the witness of the NFC finding depends on a decomposed string).
func asciiJSON(b []byte) string {
	var sb strings.Builder
	for _, r := range string(b) {
		switch {
		case r < 128:
			sb.WriteRune(r)
		case r > 0xFFFF:
			r1, r2 := utf16.EncodeRune(r)
			fmt.Fprintf(&sb, "\\u%04x\\u%04x", r1, r2)
		default:
			fmt.Fprintf(&sb, "\\u%04x", r)
		}
	}
	return sb.String()
}

// Line renders the finding in the format of known_findings.txt.
func (p ProposedFinding) Line() string {
	w, _ := json.Marshal(map[string]any{"kind": p.Witness.Kind, "payload": p.Witness.Payload, "tags": p.Witness.Tags})
	if p.Status == "fixed" {
		tail, _ := json.Marshal(map[string]any{"witness": json.RawMessage(w)})
		return fmt.Sprintf("fixed: property=C13 %s %s :: %s", p.Name, p.What, asciiJSON(tail))
	}
	tail, _ := json.Marshal(map[string]any{"witness": json.RawMessage(w), "sig": p.Sig, "tag": p.Tag})
	return fmt.Sprintf("open: property=C13 %s %s :: %s", p.Name, p.What, asciiJSON(tail))
}

func witness(route, lib string, t vu.Type, tag string, vals ...vu.Val) fw.Case {
	p := payload{Route: route, Lib: lib, T: t, Vals: vals, Width: 2, Max: 4}
	if tag == "" {
		return fw.MkCase("w", route, p)
	}
	return fw.MkCase("w", route, p, tag)
}

const valueKinds = `value\.Value is value\.Value\w+, not value\.Value\w+`

// ProposedFindings lists the known findings of C13 with pinned minimal witnesses.
func ProposedFindings() []ProposedFinding {
	a1 := vu.AnyObjV(kv("a", vu.IntV(1)))
	a12 := vu.AnyObjV(kv("a", vu.IntV(1)), kv("b", vu.IntV(2)))
	o2 := vu.ObjV(kv("a", vu.IntV(1)), kv("b", vu.StrV("x")))
	return []ProposedFinding{
		{
			Status: "open", Name: kfObjSubset,
			What:    "any-object (and object) IsEqual only checks that every key of the left side is in the right side: {a:1} == {a:1,b:2} is true, the reverse is false (both value libraries; the two backends give opposite answers for `x == y`)",
			Sig:     `^c13:(vm|tree):(eq|prog-eq):eq-(mismatch|asymmetric|intransitive):obj-subset(:[abc2!=]+)?$`,
			Tag:     cObjSubset,
			Witness: witness("eq", "vm", vu.AnyObj(), cObjSubset, a1, a12),
		},
		{
			Status: "open", Name: kfRangeIncl,
			What:    "range IsEqual ignores inclusivity: (1..3) == (1..=3) is true (both value libraries)",
			Sig:     `^c13:(vm|tree):(eq|prog-eq):eq-mismatch:range-inclusive(:[abc2!=]+)?$`,
			Tag:     cRangeIncl,
			Witness: witness("eq", "vm", vu.Range(), cRangeIncl, vu.RangeV(1, 3, false), vu.RangeV(1, 3, true)),
		},
		{
			Status: "open", Name: kfKindClash,
			What: "comparing two any-objects that hold values of different kinds under the same key panics in Go (unchecked type assertion in ValueString/ValueBool/ValueList/ValueObject/ValueRange.IsEqual); on the VM this kills the host process",
			Sig: `^c13:(vm|tree):eq:eq-panic:interface conversion: ` + valueKinds + `$|^c13:both:prog-eq:crash:go-panic:interface conversion: ` + valueKinds +
				`$|^c13:tree:prog-eq:prog-died:go-panic/:interface conversion: ` + valueKinds + `$`,
			Tag:     cKindClash,
			Witness: witness("eq", "vm", vu.AnyObj(), cKindClash, vu.AnyObjV(kv("a", vu.StrV("x"))), a1),
		},
		{
			Status: "open", Name: kfNFC,
			What:    "the VM library NFC-normalises strings on construction, the interpreter library does not: the same string value renders as different text on the two runtimes (and \"e\\u0301\" == \"\\u00e9\" differs between them)",
			Sig:     `^c13:both:(display|prog-eq):display-differs:vm-string-nfc$|^c13:vm:prog-eq:eq-mismatch:string-nfc:[abc2!=]+$`,
			Tag:     cNFC,
			Witness: witness("display", "both", vu.Str(), cNFC, vu.StrV(nonNFC)),
		},
		{
			Status: "open", Name: kfJSONFloat,
			What: "JSON: an integral float (1.0) is read back as an int: `let x: [float] = [1.0].to_json().parse_json()` is rejected, any-object content changes kind; the interpreter additionally writes 1.0 as 1",
			Sig: `^c13:(vm|tree):(json|prog-json):roundtrip-rejected:let:json-integral-float$|^c13:(vm|tree):(json|prog-json):roundtrip-differs:(as|let):json-integral-float$` +
				`|^c13:tree:(json|prog-json):text-wrong:json-integral-float$|^c13:vm:json:go-typed-differs:json-integral-float$`,
			Tag:     cJSONFloat,
			Witness: witness("json", "vm", vu.List(vu.Float()), cJSONFloat, vu.ListV(vu.FloatV(1), vu.FloatV(2.5))),
		},
		{
			Status: "open", Name: kfJSONNone,
			What: "JSON: none is dropped instead of written as null: the VM drops none list elements, both libraries drop none object fields, after which the text is rejected under the object type",
			Sig: `^c13:(vm|tree):(json|prog-json):roundtrip-(rejected|differs):(as|let):json-none$|^c13:vm:(json|prog-json):text-wrong:json-none$` +
				`|^c13:vm:json:go-typed-differs:json-none$`,
			Tag:     cJSONNone,
			Witness: witness("json", "vm", vu.List(vu.Opt(vu.Int())), cJSONNone, vu.ListV(vu.SomeV(vu.IntV(1)), vu.NoneV(), vu.SomeV(vu.IntV(2)))),
		},
		{
			Status: "open", Name: kfJSONBigInt,
			What:    "JSON: integers beyond 2^53 are parsed through float64: 9007199254740993 comes back as 9007199254740992, 9223372036854775807 as a float (rejected under int)",
			Sig:     `^c13:(vm|tree):(json|prog-json):roundtrip-(rejected|differs):(as|let):json-big-int$|^c13:vm:json:go-typed-differs:json-big-int$`,
			Tag:     cJSONBigInt,
			Witness: witness("json", "vm", vu.List(vu.Int()), cJSONBigInt, vu.ListV(vu.IntV(1<<53+1)), vu.ListV(vu.IntV(math.MaxInt64))),
		},
		{
			Status: "open", Name: kfTypedAny,
			What:    "value.TypeAwareUnmarshalValue panics on a JSON object under the type {?} (asserts ast.ObjectType)",
			Sig:     `^c13:vm:json:go-typed-panic:go panic: interface conversion: ast\.Type is ast\.AnyObjectType, not ast\.ObjectType$`,
			Tag:     cTypedAny,
			Witness: witness("json", "vm", vu.AnyObj(), cTypedAny, a1),
		},
		{
			Status: "open", Name: kfTreeLetAny,
			What:    "interpreter: a value containing an any-object does not survive to_json -> parse_json under an annotated let (interpreter DeepCast refuses object -> {?} without allowCasts; the VM admits it)",
			Sig:     `^c13:tree:(json|prog-json):roundtrip-rejected:let:json-anyobj$`,
			Tag:     cTreeLetAny,
			Witness: witness("json", "tree", vu.Obj(vu.F("a", vu.AnyObj())), cTreeLetAny, vu.ObjV(kv("a", a1))),
		},
		{
			Status: "fixed", Name: "e478496",
			What:    "Display of objects / any-objects iterated a Go map: the text varied from call to call and between the runtimes",
			Witness: witness("display", "both", vu.Obj(vu.F("a", vu.Int()), vu.F("b", vu.Str())), "", o2),
		},
		{
			Status: "fixed", Name: "dfd9ac8",
			What:    "the interpreter rendered the range 1..3 as {1}..{3}",
			Witness: witness("display", "both", vu.List(vu.Range()), "", vu.ListV(vu.RangeV(1, 3, false), vu.RangeV(5, 0, true))),
		},
	}
}
