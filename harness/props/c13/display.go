package c13

import (
	"fmt"
	"regexp"
	"strings"

	vu "hv/valuni"
)

// The precomposed (NFC) form of nonNFC.
const nonNFCComposed = "\u00e9 \u00c5"

// displayReps: how often Display is called on a value that contains an object with >= 2 keys.
// An implementation that iterates a Go map shows >= 2 different orders within 200 calls with
// probability 1 - (7/8)^200 > 1 - 1e-11 for two keys, so the verdict is deterministic in practice.
const displayReps = 200

func displayOnce(lib string, v vu.Val) (text string, err error) {
	defer func() {
		if r := recover(); r != nil {
			err = fmt.Errorf("go panic: %v", r)
		}
	}()
	if lib == "vm" {
		x := vu.ToVM(v)
		s, i := (*x).Display()
		if i != nil {
			return "", fmt.Errorf("interrupt: %s", (*i).Message())
		}
		return s, nil
	}
	x := vu.ToTree(v)
	s, i := (*x).Display()
	if i != nil {
		return "", fmt.Errorf("interrupt: %s", (*i).Message())
	}
	return s, nil
}

// displays renders v reps times in a library and returns the distinct texts in order of first
// appearance.
func displays(lib string, v vu.Val, reps int) ([]string, error) {
	var out []string
	seen := map[string]bool{}
	for i := 0; i < reps; i++ {
		s, err := displayOnce(lib, v)
		if err != nil {
			return nil, err
		}
		if !seen[s] {
			seen[s] = true
			out = append(out, s)
		}
	}
	return out, nil
}

var bracedInt = regexp.MustCompile(`\{(-?\d+)\}`)

func displayAttribution(v vu.Val, vm, tree string) string {
	if v.HasVKind(vu.VRange) && bracedInt.ReplaceAllString(tree, "$1") == vm {
		return "tree-range-braces"
	}
	if strings.Contains(tree, nonNFC) && strings.ReplaceAll(tree, nonNFC, nonNFCComposed) == vm {
		return "vm-string-nfc"
	}
	return v.Shape()
}

func (j *judge) display() {
	t := j.p.T
	for _, v := range pool(j.p) {
		cs := displayConstructs(v)
		if hasAny(cs, j.p.Avoid) {
			continue
		}
		j.hashParts = append(j.hashParts, v.String())
		reps := 1
		if has(cs, cDispOrder) {
			reps = displayReps
		}
		j.evals++
		dv, err1 := displays("vm", v, reps)
		dt, err2 := displays("tree", v, reps)
		if err1 != nil || err2 != nil {
			j.fail("both", "display-failed", t.Shape(), "Display of %s failed: vm=%v tree=%v", v, err1, err2)
			continue
		}
		bad := false
		if len(dv) > 1 {
			j.fail("vm", "display-unstable", "key-order", "Display of one and the same value %s yields %d different texts, e.g. %q and %q", v, len(dv), clip(dv[0], 120), clip(dv[1], 120))
			bad = true
		}
		if len(dt) > 1 {
			j.fail("tree", "display-unstable", "key-order", "Display of one and the same value %s yields %d different texts, e.g. %q and %q", v, len(dt), clip(dt[0], 120), clip(dt[1], 120))
			bad = true
		}
		if bad {
			continue
		}
		if dv[0] != dt[0] {
			j.fail("both", "display-differs", displayAttribution(v, dv[0], dt[0]), "the runtimes render the same value %s differently: VM %q, interpreter %q", v, clip(dv[0], 160), clip(dt[0], 160))
			continue
		}
		j.nontrivial = true
		j.cov("same-text")
		if j.sample == nil {
			j.sample = map[string]any{"route": "display", "type": t.Src(), "value": v.String(), "text": clip(dv[0], 120)}
		}
	}
}
