package c13

import (
	"fmt"
	"math"

	"hv/fw"
	vu "hv/valuni"
)

// pcase is one hand-picked poisoned case: exactly the construct of one finding, nothing else.
type pcase struct {
	construct string
	route     string
	libs      []string
	t         vu.Type
	vals      []vu.Val
}

func kv(k string, v vu.Val) vu.KV { return vu.KV{K: k, V: v} }

// poisonedCases lists, per finding, small value sets that contain only its construct.
func poisonedCases() []pcase {
	both := []string{"vm", "tree"}
	one := []string{"both"}
	var out []pcase
	add := func(c, route string, libs []string, t vu.Type, vals ...vu.Val) {
		out = append(out, pcase{c, route, libs, t, vals})
	}
	a1 := vu.AnyObjV(kv("a", vu.IntV(1)))
	a12 := vu.AnyObjV(kv("a", vu.IntV(1)), kv("b", vu.IntV(2)))
	a0 := vu.AnyObjV()
	aNest := vu.AnyObjV(kv("k", vu.ObjV(kv("z", vu.BoolV(true)))))
	aNest2 := vu.AnyObjV(kv("k", vu.ObjV(kv("z", vu.BoolV(true)), kv("y", vu.IntV(0)))))

	// --- any-object equality only checks self ⊆ other
	for _, route := range []string{"eq", "prog-eq"} {
		libs := both
		if route == "prog-eq" {
			libs = one
		}
		add(cObjSubset, route, libs, vu.AnyObj(), a1, a12, a0)
		add(cObjSubset, route, libs, vu.AnyObj(), a0, a1, a1.With("zz", vu.StrV("q")))
		add(cObjSubset, route, libs, vu.List(vu.AnyObj()), vu.ListV(a1), vu.ListV(a12), vu.ListV(a1, a1))
		add(cObjSubset, route, libs, vu.Obj(vu.F("a", vu.AnyObj())), vu.ObjV(kv("a", a1)), vu.ObjV(kv("a", a12)), vu.ObjV(kv("a", a0)))
		add(cObjSubset, route, libs, vu.Opt(vu.AnyObj()), vu.SomeV(a12), vu.SomeV(a1), vu.NoneV())
		add(cObjSubset, route, libs, vu.Obj(vu.F("a", vu.Int()), vu.F("b", vu.AnyObj())), vu.ObjV(kv("a", vu.IntV(0)), kv("b", a0)), vu.ObjV(kv("a", vu.IntV(0)), kv("b", a1)), vu.ObjV(kv("a", vu.IntV(1)), kv("b", a1)))
		add(cObjSubset, route, libs, vu.AnyObj(), aNest, aNest2, a0)
	}
	// --- range equality ignores inclusivity
	r13, r13i, r14 := vu.RangeV(1, 3, false), vu.RangeV(1, 3, true), vu.RangeV(1, 4, false)
	for _, route := range []string{"eq", "prog-eq"} {
		libs := both
		if route == "prog-eq" {
			libs = one
		}
		add(cRangeIncl, route, libs, vu.Range(), r13, r13i, r14)
		add(cRangeIncl, route, libs, vu.Range(), vu.RangeV(0, 0, true), vu.RangeV(0, 0, false), vu.RangeV(5, 0, false))
		add(cRangeIncl, route, libs, vu.List(vu.Range()), vu.ListV(r13), vu.ListV(r13i), vu.ListV())
		add(cRangeIncl, route, libs, vu.Opt(vu.Range()), vu.SomeV(r13i), vu.SomeV(r13), vu.NoneV())
		add(cRangeIncl, route, libs, vu.Obj(vu.F("a", vu.Range())), vu.ObjV(kv("a", r13)), vu.ObjV(kv("a", r13i)), vu.ObjV(kv("a", r14)))
		add(cRangeIncl, route, libs, vu.Obj(vu.F("a", vu.Int()), vu.F("b", vu.Range())), vu.ObjV(kv("a", vu.IntV(1)), kv("b", r13)), vu.ObjV(kv("a", vu.IntV(1)), kv("b", r13i)), vu.ObjV(kv("a", vu.IntV(2)), kv("b", r13)))
	}
	// --- the same any-object key holds values of different kinds
	as, ai := vu.AnyObjV(kv("a", vu.StrV("x"))), vu.AnyObjV(kv("a", vu.IntV(1)))
	ab, al := vu.AnyObjV(kv("a", vu.BoolV(true))), vu.AnyObjV(kv("a", vu.ListV(vu.IntV(1))))
	ao := vu.AnyObjV(kv("a", vu.ObjV(kv("z", vu.IntV(1)))))
	for _, route := range []string{"eq", "prog-eq"} {
		libs := both
		if route == "prog-eq" {
			libs = one
		}
		add(cKindClash, route, libs, vu.AnyObj(), as, ai, as)
		add(cKindClash, route, libs, vu.AnyObj(), ab, ai, ab)
		add(cKindClash, route, libs, vu.AnyObj(), al, as, al)
		add(cKindClash, route, libs, vu.AnyObj(), ao, ai, ao)
		add(cKindClash, route, libs, vu.List(vu.AnyObj()), vu.ListV(as), vu.ListV(ai), vu.ListV(as))
		add(cKindClash, route, libs, vu.Obj(vu.F("a", vu.AnyObj())), vu.ObjV(kv("a", as)), vu.ObjV(kv("a", ab)), vu.ObjV(kv("a", as)))
	}
	// --- Display iterates a map
	o2 := vu.ObjV(kv("a", vu.IntV(1)), kv("b", vu.StrV("x")))
	t2 := vu.Obj(vu.F("a", vu.Int()), vu.F("b", vu.Str()))
	for _, route := range []string{"display", "prog-eq"} {
		add(cDispOrder, route, one, t2, o2, o2, o2)
		add(cDispOrder, route, one, vu.AnyObj(), a12, a12, a12)
		add(cDispOrder, route, one, vu.List(t2), vu.ListV(o2), vu.ListV(o2), vu.ListV(o2))
		add(cDispOrder, route, one, vu.Opt(t2), vu.SomeV(o2), vu.SomeV(o2), vu.SomeV(o2))
		add(cDispOrder, route, one, vu.Obj(vu.F("a", t2)), vu.ObjV(kv("a", o2)), vu.ObjV(kv("a", o2)), vu.ObjV(kv("a", o2)))
		add(cDispOrder, route, one, vu.Obj(vu.F("a", vu.Bool()), vu.F("b", vu.List(vu.Int()))),
			vu.ObjV(kv("a", vu.BoolV(true)), kv("b", vu.ListV(vu.IntV(1)))), vu.ObjV(kv("a", vu.BoolV(true)), kv("b", vu.ListV(vu.IntV(1)))), vu.ObjV(kv("a", vu.BoolV(true)), kv("b", vu.ListV(vu.IntV(1)))))
	}
	// --- interpreter range Display
	for _, route := range []string{"display", "prog-eq"} {
		add(cTreeRange, route, one, vu.Range(), r13, r13, r13)
		add(cTreeRange, route, one, vu.Range(), vu.RangeV(5, 0, false), vu.RangeV(5, 0, false), vu.RangeV(5, 0, false))
		add(cTreeRange, route, one, vu.List(vu.Range()), vu.ListV(r13, r14), vu.ListV(r13, r14), vu.ListV(r13, r14))
		add(cTreeRange, route, one, vu.Opt(vu.Range()), vu.SomeV(r14), vu.SomeV(r14), vu.SomeV(r14))
		add(cTreeRange, route, one, vu.Obj(vu.F("a", vu.Range())), vu.ObjV(kv("a", r13)), vu.ObjV(kv("a", r13)), vu.ObjV(kv("a", r13)))
	}
	// --- VM strings are NFC-normalised on construction, interpreter strings are not
	nf := vu.StrV(nonNFC)
	add(cNFC, "prog-eq", one, vu.Str(), nf, vu.StrV(nonNFCComposed), nf)
	for _, route := range []string{"display", "prog-eq"} {
		add(cNFC, route, one, vu.Str(), nf, nf, nf)
		add(cNFC, route, one, vu.List(vu.Str()), vu.ListV(nf), vu.ListV(nf), vu.ListV(nf))
		add(cNFC, route, one, vu.Opt(vu.Str()), vu.SomeV(nf), vu.SomeV(nf), vu.SomeV(nf))
		add(cNFC, route, one, vu.Obj(vu.F("a", vu.Str())), vu.ObjV(kv("a", nf)), vu.ObjV(kv("a", nf)), vu.ObjV(kv("a", nf)))
	}
	// --- JSON: integral floats come back as ints
	for _, route := range []string{"json", "prog-json"} {
		libs := both
		if route == "prog-json" {
			libs = one
		}
		add(cJSONFloat, route, libs, vu.List(vu.Float()), vu.ListV(vu.FloatV(1), vu.FloatV(2.5)), vu.ListV(vu.FloatV(0)))
		add(cJSONFloat, route, libs, vu.Obj(vu.F("a", vu.Float())), vu.ObjV(kv("a", vu.FloatV(2))), vu.ObjV(kv("a", vu.FloatV(-3))))
		add(cJSONFloat, route, libs, vu.AnyObj(), vu.AnyObjV(kv("a", vu.FloatV(1))), vu.AnyObjV(kv("a", vu.ListV(vu.FloatV(2), vu.FloatV(0.5)))))
		add(cJSONFloat, route, libs, vu.List(vu.Opt(vu.Float())), vu.ListV(vu.SomeV(vu.FloatV(1e15))))
		add(cJSONFloat, route, libs, vu.Obj(vu.F("a", vu.Int()), vu.F("b", vu.List(vu.Float()))), vu.ObjV(kv("a", vu.IntV(1)), kv("b", vu.ListV(vu.FloatV(7)))))
		add(cJSONFloat, route, libs, vu.List(vu.List(vu.Float())), vu.ListV(vu.ListV(vu.FloatV(4))))
	}
	// --- JSON: none is dropped instead of written as null
	for _, route := range []string{"json", "prog-json"} {
		libs := both
		if route == "prog-json" {
			libs = one
		}
		add(cJSONNone, route, libs, vu.List(vu.Opt(vu.Int())), vu.ListV(vu.SomeV(vu.IntV(1)), vu.NoneV(), vu.SomeV(vu.IntV(2))), vu.ListV(vu.NoneV()))
		add(cJSONNone, route, libs, vu.Obj(vu.F("a", vu.Opt(vu.Int()))), vu.ObjV(kv("a", vu.NoneV())))
		add(cJSONNone, route, libs, vu.Obj(vu.F("a", vu.Int()), vu.F("b", vu.Opt(vu.Str()))), vu.ObjV(kv("a", vu.IntV(1)), kv("b", vu.NoneV())))
		add(cJSONNone, route, libs, vu.List(vu.Obj(vu.F("a", vu.Opt(vu.Bool())))), vu.ListV(vu.ObjV(kv("a", vu.NoneV()))))
		add(cJSONNone, route, libs, vu.List(vu.Opt(vu.Str())), vu.ListV(vu.NoneV(), vu.SomeV(vu.StrV("x"))))
	}
	// --- JSON: integers beyond 2^53 go through float64
	for _, route := range []string{"json", "prog-json"} {
		libs := both
		if route == "prog-json" {
			libs = one
		}
		add(cJSONBigInt, route, libs, vu.List(vu.Int()), vu.ListV(vu.IntV(1<<53+1)), vu.ListV(vu.IntV(math.MaxInt64)))
		add(cJSONBigInt, route, libs, vu.Obj(vu.F("a", vu.Int())), vu.ObjV(kv("a", vu.IntV(-(1<<53)-1))), vu.ObjV(kv("a", vu.IntV(math.MinInt64+1))))
		add(cJSONBigInt, route, libs, vu.AnyObj(), vu.AnyObjV(kv("a", vu.IntV(1<<53+1))))
		add(cJSONBigInt, route, libs, vu.List(vu.Opt(vu.Int())), vu.ListV(vu.SomeV(vu.IntV(1<<62+1))))
	}
	// --- interpreter: object -> {?} is refused without allowCasts (annotated let)
	for _, route := range []string{"json", "prog-json"} {
		libs := []string{"tree"}
		if route == "prog-json" {
			libs = one
		}
		add(cTreeLetAny, route, libs, vu.AnyObj(), a1, a0)
		add(cTreeLetAny, route, libs, vu.List(vu.AnyObj()), vu.ListV(a1))
		add(cTreeLetAny, route, libs, vu.Obj(vu.F("a", vu.AnyObj())), vu.ObjV(kv("a", a1)))
		add(cTreeLetAny, route, libs, vu.Obj(vu.F("a", vu.Int()), vu.F("b", vu.AnyObj())), vu.ObjV(kv("a", vu.IntV(1)), kv("b", a12)))
		add(cTreeLetAny, route, libs, vu.List(vu.Obj(vu.F("a", vu.AnyObj()))), vu.ListV(vu.ObjV(kv("a", a0))))
	}
	// --- TypeAwareUnmarshalValue cannot read an object under the type {?}
	add(cTypedAny, "json", []string{"vm"}, vu.AnyObj(), a1, a0)
	add(cTypedAny, "json", []string{"vm"}, vu.List(vu.AnyObj()), vu.ListV(a1))
	add(cTypedAny, "json", []string{"vm"}, vu.Obj(vu.F("a", vu.AnyObj())), vu.ObjV(kv("a", a1)))
	add(cTypedAny, "json", []string{"vm"}, vu.Obj(vu.F("a", vu.Int()), vu.F("b", vu.AnyObj())), vu.ObjV(kv("a", vu.IntV(1)), kv("b", a1)))
	return out
}

// poisoned builds the poisoned workload: for every OPEN finding the hand-picked cases carrying
// its tag; every other open construct is avoided inside them.
func poisoned(avoid []string, seed uint64, n *int) []fw.Case {
	var cases []fw.Case
	for _, pc := range poisonedCases() {
		if !fw.KFOpen(kfOf[pc.construct]) {
			continue
		}
		var others []string
		for _, a := range avoid {
			if a != pc.construct {
				others = append(others, a)
			}
		}
		for _, lib := range pc.libs {
			p := payload{Route: pc.route, Lib: lib, T: pc.t, Vals: pc.vals, Avoid: others, Seed: seed, Max: 4, Width: 2}
			cases = append(cases, fw.MkCase(fmt.Sprintf("c13-%s-%s-p%04d", p.Route, p.Lib, *n), p.Route, p, pc.construct))
			*n++
		}
	}
	return cases
}
