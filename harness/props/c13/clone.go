package c13

import (
	"context"
	"fmt"
	"sort"
	"strings"

	herrors "github.com/smarthome-go/homescript/v3/homescript/errors"
	vvalue "github.com/smarthome-go/homescript/v3/homescript/runtime/value"

	"hv/drive"
	"hv/fw"
	vu "hv/valuni"
)

// mop is one mutation of a value at a position.
type mop struct {
	Path vu.Path `json:"path"`
	Op   string  `json:"op"` // push pop push_front pop_front insert remove set sort assign-field assign-inner anyset
	Idx  int     `json:"idx,omitempty"`
	Key  string  `json:"key,omitempty"`
	X    vu.Val  `json:"x"`
}

func (m mop) String() string {
	at := m.Path.Render(true)
	if at == "" {
		at = "<root>"
	}
	switch m.Op {
	case "push", "push_front":
		return fmt.Sprintf("%s.%s(%s)", at, m.Op, m.X)
	case "pop", "pop_front", "sort":
		return fmt.Sprintf("%s.%s()", at, m.Op)
	case "insert":
		return fmt.Sprintf("%s.insert(%d, %s)", at, m.Idx, m.X)
	case "remove":
		return fmt.Sprintf("%s.remove(%d)", at, m.Idx)
	case "set":
		return fmt.Sprintf("%s[%d] = %s", at, m.Idx, m.X)
	case "assign-field":
		return fmt.Sprintf("%s.%s = %s", at, m.Key, m.X)
	case "assign-inner":
		return fmt.Sprintf("%s<inner> = %s", at, m.X)
	case "anyset":
		return fmt.Sprintf("%s.set(%q, %s)", at, m.Key, m.X)
	}
	return m.Op
}

var anyContent = []vu.Val{vu.IntV(5), vu.StrV("s"), vu.ListV(vu.IntV(1)), vu.ObjV(vu.KV{K: "q", V: vu.BoolV(true)}), vu.FloatV(2.5)}

// genOp draws a mutation applicable to the current (shadow) value.
func genOp(r *fw.Rng, cur vu.Val, t vu.Type) (mop, bool) {
	var cands []vu.TypedPos
	for _, tp := range vu.TypedPositions(cur, t) {
		switch {
		case tp.T.K == vu.TList, tp.T.K == vu.TObj && len(tp.T.Fields) > 0, tp.T.K == vu.TAnyObj:
			cands = append(cands, tp)
		case tp.T.K == vu.TOpt && tp.V.K == vu.VSome:
			cands = append(cands, tp)
		}
	}
	if len(cands) == 0 {
		return mop{}, false
	}
	// prefer deep positions half of the time
	tp := cands[r.Intn(len(cands))]
	if r.Bool() {
		for tries := 0; tries < 3; tries++ {
			c := cands[r.Intn(len(cands))]
			if len(c.Path) > len(tp.Path) {
				tp = c
			}
		}
	}
	m := mop{Path: tp.Path}
	switch tp.T.K {
	case vu.TList:
		xs := vu.Typed(*tp.T.Elem, 2)
		m.X = xs[r.Intn(len(xs))]
		n := len(tp.V.Elems)
		ops := []string{"push", "push_front", "insert", "pop", "pop_front"}
		if n > 0 {
			ops = append(ops, "remove", "set", "set")
		}
		if k := tp.T.Elem.K; n > 1 && (k == vu.TInt || k == vu.TFloat || k == vu.TStr) {
			ops = append(ops, "sort")
		}
		m.Op = ops[r.Intn(len(ops))]
		switch m.Op {
		case "insert":
			m.Idx = r.Intn(n + 1)
		case "remove", "set":
			m.Idx = r.Intn(n)
		}
	case vu.TObj:
		f := tp.T.Fields[r.Intn(len(tp.T.Fields))]
		xs := vu.Typed(f.T, 2)
		m.Op, m.Key, m.X = "assign-field", f.Name, xs[r.Intn(len(xs))]
	case vu.TAnyObj:
		keys := append(append([]string{}, tp.V.Keys...), "n1", "n2")
		m.Op, m.Key, m.X = "anyset", keys[r.Intn(len(keys))], anyContent[r.Intn(len(anyContent))]
	case vu.TOpt:
		xs := vu.Typed(*tp.T.Elem, 2)
		m.Op, m.X = "assign-inner", xs[r.Intn(len(xs))]
	}
	return m, true
}

// applyShadow is the reference semantics of a mutation on the abstract value.
func applyShadow(cur vu.Val, m mop) vu.Val {
	sub, _ := cur.At(m.Path)
	sub = sub.Copy()
	switch m.Op {
	case "push":
		sub.Elems = append(sub.Elems, m.X)
	case "push_front":
		sub.Elems = append([]vu.Val{m.X}, sub.Elems...)
	case "pop":
		if n := len(sub.Elems); n > 0 {
			sub.Elems = sub.Elems[:n-1]
		}
	case "pop_front":
		if len(sub.Elems) > 0 {
			sub.Elems = sub.Elems[1:]
		}
	case "insert":
		es := append([]vu.Val{}, sub.Elems[:m.Idx]...)
		es = append(es, m.X)
		sub.Elems = append(es, sub.Elems[m.Idx:]...)
	case "remove":
		es := append([]vu.Val{}, sub.Elems[:m.Idx]...)
		sub.Elems = append(es, sub.Elems[m.Idx+1:]...)
	case "set":
		sub.Elems[m.Idx] = m.X
	case "sort":
		sort.SliceStable(sub.Elems, func(a, b int) bool {
			x, y := sub.Elems[a], sub.Elems[b]
			switch x.K {
			case vu.VInt:
				return x.I < y.I
			case vu.VFloat:
				return float64(x.F) < float64(y.F)
			default:
				return strings.Compare(x.S, y.S) < 0
			}
		})
	case "assign-field", "anyset":
		sub = sub.With(m.Key, m.X)
	case "assign-inner":
		x := m.X
		sub.Inner = &x
	}
	if sub.K == vu.VList && sub.Elems == nil {
		sub.Elems = []vu.Val{}
	}
	return replaceAt(cur, m.Path, sub)
}

// navVM follows a path through the real pointers of a VM value.
func navVM(root *vvalue.Value, p vu.Path) (*vvalue.Value, error) {
	cur := root
	for _, e := range p {
		if cur == nil {
			return nil, fmt.Errorf("nil pointer on the way")
		}
		switch e.Kind {
		case 'f':
			o, ok := (*cur).(vvalue.ValueObject)
			if !ok {
				return nil, fmt.Errorf("expected an object at %v", e)
			}
			cur = o.FieldsInternal[e.Name]
		case 'i':
			l, ok := (*cur).(vvalue.ValueList)
			if !ok || e.Index >= len(*l.Values) {
				return nil, fmt.Errorf("expected a list with index %d", e.Index)
			}
			cur = (*l.Values)[e.Index]
		case 'o':
			o, ok := (*cur).(vvalue.ValueOption)
			if !ok {
				return nil, fmt.Errorf("expected an option")
			}
			cur = o.Inner
		}
	}
	if cur == nil {
		return nil, fmt.Errorf("nil pointer at the target")
	}
	return cur, nil
}

var cloneCtx = context.Background()

// applyVM performs the mutation on the real value: builtin members for the list / any-object
// operations, a write through the element pointer for assignments (what Opcode_Assign does).
func applyVM(root *vvalue.Value, m mop) (err error) {
	defer func() {
		if r := recover(); r != nil {
			err = fmt.Errorf("go panic: %v", r)
		}
	}()
	target, err := navVM(root, m.Path)
	if err != nil {
		return err
	}
	call := func(name string, args ...vvalue.Value) error {
		fields, i := (*target).Fields()
		if i != nil {
			return fmt.Errorf("Fields(): %s", (*i).Message())
		}
		f, ok := fields[name]
		if !ok {
			return fmt.Errorf("member %s missing", name)
		}
		bf, ok := (*f).(vvalue.ValueBuiltinFunction)
		if !ok {
			return fmt.Errorf("member %s is not a builtin function", name)
		}
		ctx := cloneCtx
		_, intr := bf.Callback(drive.VMExec{L: &drive.Log{}}, &ctx, herrors.Span{}, args...)
		if intr != nil {
			return fmt.Errorf("%s: %s", name, (*intr).Message())
		}
		return nil
	}
	switch m.Op {
	case "push", "push_front":
		return call(m.Op, *vu.ToVM(m.X))
	case "pop", "pop_front", "sort":
		return call(m.Op)
	case "insert":
		return call("insert", *vvalue.NewValueInt(int64(m.Idx)), *vu.ToVM(m.X))
	case "remove":
		return call("remove", *vvalue.NewValueInt(int64(m.Idx)))
	case "anyset":
		return call("set", *vvalue.NewValueString(m.Key), *vu.ToVM(m.X))
	case "set":
		l := (*target).(vvalue.ValueList)
		*(*l.Values)[m.Idx] = *vu.ToVM(m.X)
	case "assign-field":
		o := (*target).(vvalue.ValueObject)
		*o.FieldsInternal[m.Key] = *vu.ToVM(m.X)
	case "assign-inner":
		o := (*target).(vvalue.ValueOption)
		*o.Inner = *vu.ToVM(m.X)
	}
	return nil
}

func histString(ops []mop) string {
	parts := make([]string, len(ops))
	for i, o := range ops {
		parts[i] = o.String()
	}
	return strings.Join(parts, "; ")
}

func (j *judge) clone() {
	t := j.p.T
	vals := j.p.Vals
	if vals == nil {
		vals = vu.Typed(t, j.p.Width)
	}
	r := fw.NewRng(j.p.Seed)
	j.hashParts = append(j.hashParts, fmt.Sprint(j.p.Seed))
	for _, v := range vals {
		j.hashParts = append(j.hashParts, v.String())
		// (1) a clone is equal to its original
		j.evals++
		orig := vu.ToVM(v)
		var c *vvalue.Value
		var pm any
		func() {
			defer func() { pm = recover() }()
			c = (*orig).Clone()
		}()
		if pm != nil || c == nil {
			j.fail("vm", "clone-panic", normMsg(fmt.Sprint(pm)), "Clone() panicked or returned nil for %s: %v", v, pm)
			continue
		}
		back, err := vu.FromVM(*c)
		if err != nil || !vu.Identical(back, v) {
			j.fail("vm", "clone-differs", t.Shape(), "the clone of %s is %s (%v)", v, back, err)
			continue
		}
		if cs := pairConstructs(v, v); !hasAny(cs, j.p.Avoid) {
			e1, p1, _ := isEqualReal(*orig, *c)
			e2, p2, _ := isEqualReal(*c, *orig)
			if p1 != "" || p2 != "" {
				j.fail("vm", "eq-panic", normMsg(p1+p2), "comparing %s with its clone panicked: %s%s", v, p1, p2)
			} else if !e1 || !e2 {
				j.fail("vm", "clone-not-equal", t.Shape(), "clone == original is %v / original == clone is %v for %s", e2, e1, v)
			}
		}
		j.cov("clone-equal")

		// (2) histories: mutate the clone, then the original; nothing may leak across
		for h := 0; h < j.p.Hist; h++ {
			hr := r.Fork()
			orig := vu.ToVM(v)
			cl := (*orig).Clone()
			shadowO, shadowC := v, v
			var ops []mop
			n := 1 + hr.Intn(20)
			ok := true
			for phase := 0; phase < 2 && ok; phase++ {
				for k := 0; k < n && ok; k++ {
					target, shadow := cl, &shadowC
					side := "clone"
					if phase == 1 {
						target, shadow, side = orig, &shadowO, "original"
					}
					m, can := genOp(hr, *shadow, t)
					if !can {
						break
					}
					ops = append(ops, m)
					j.evals++
					if err := applyVM(target, m); err != nil {
						j.fail("vm", "mutation-failed", m.Op, "mutation %s on the %s of %s failed: %v (history: %s)", m, side, v, err, histString(ops))
						ok = false
						break
					}
					*shadow = applyShadow(*shadow, m)
					gotO, errO := vu.FromVM(*orig)
					gotC, errC := vu.FromVM(*cl)
					switch {
					case errO != nil || errC != nil:
						j.fail("vm", "mutation-corrupts", m.Op, "after %s the values are malformed: %v %v (history: %s)", m, errO, errC, histString(ops))
						ok = false
					case phase == 0 && !vu.Identical(gotO, shadowO):
						j.fail("vm", "clone-shares-state", "clone->original:"+m.Op, "a mutation of the clone is visible through the original: original of %s is now %s after history on the clone: %s", v, gotO, histString(ops))
						ok = false
					case phase == 1 && !vu.Identical(gotC, shadowC):
						j.fail("vm", "clone-shares-state", "original->clone:"+m.Op, "a mutation of the original is visible through the clone: clone is now %s, expected %s; history: %s", gotC, shadowC, histString(ops))
						ok = false
					case phase == 0 && !vu.Identical(gotC, shadowC):
						// the member itself behaves differently from the model: that is C18's subject,
						// not a copy law; resynchronise the shadow with what really happened
						j.cov("member-differs-from-model:" + m.Op)
						shadowC = gotC
					case phase == 1 && !vu.Identical(gotO, shadowO):
						j.cov("member-differs-from-model:" + m.Op)
						shadowO = gotO
					}
					if ok {
						j.nontrivial = true
						j.cov("op:" + m.Op)
						if len(m.Path) > 0 {
							j.cov("op-below-root")
						}
					}
				}
			}
			if j.sample == nil && len(ops) > 2 {
				j.sample = map[string]any{"route": "clone", "type": t.Src(), "value": v.String(), "history": histString(ops)}
			}
		}
	}
}

func isEqualReal(a, b vvalue.Value) (eq bool, panicMsg string, intr string) {
	defer func() {
		if r := recover(); r != nil {
			panicMsg = fmt.Sprint(r)
		}
	}()
	e, i := a.IsEqual(b)
	if i != nil {
		intr = (*i).Message()
	}
	return e, "", intr
}
