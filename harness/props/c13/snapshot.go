package c13

import (
	"fmt"
	"strings"

	vu "hv/valuni"
)

// ---------------------------------------------------------------------------------------------
// route prog-snapshot: the copy laws at program level
// ---------------------------------------------------------------------------------------------
//
// The one place where a program makes a clone is the `for` loop: it runs on a clone of the
// iterated value (compiler: Opcode_Clone before Opcode_IntoIter, interpreter: cloneValue in
// IntoIter), on both back ends. "A clone is equal to its original and shares no mutable state with
// it", over "all mutation sequences applied after cloning", therefore reads at program level:
//
//	M  whatever the body does to the CONTENTS of the loop variable (push on a nested list, field
//	   assignment, any-object set, through an option) is invisible through every other name of the
//	   iterated list and of its elements;
//	G  whatever the body does to the original list (push) is invisible to the loop: it runs over the
//	   elements the list had when it started;
//	B  the position of the loop is no state of the original either: a loop left by `break` leaves
//	   nothing behind for the next loop over the same expression.
//
// The laws do not depend on HOW the iterated list is denoted, so every program puts the same list
// through every expression form that can denote an existing list: a variable, a field, an index, a
// group, a block / if / match expression, a cast, calls that return their parameter / a field of
// it / a global, option unwrap / unwrap_or / expect, and a list literal whose elements are existing
// values. The oracle is the model of snapshot semantics (the original compares `==` with an
// independently written second copy, both render as the same text, the iteration counts are those of
// the initial length), checked on both back ends.

type iterForm struct {
	name string
	expr string // denotes the list `xs` (or `[e0, e1]` for the literal form)
	lit  bool   // the form is a list literal of the existing elements e0, e1
}

var iterForms = []iterForm{
	{"var", "xs", false},
	{"field", "h.l", false},
	{"index", "w[0]", false},
	{"group", "(xs)", false},
	{"block", "({ xs })", false},
	{"if", "(if one == 1 { xs } else { ys })", false},
	{"match", "(match one { 1 => xs, _ => ys })", false},
	{"cast", "(xs as [%E])", false},
	{"call-param", "ident(xs)", false},
	{"call-field", "pick(h)", false},
	{"call-global", "glob()", false},
	{"unwrap", "o.unwrap()", false},
	{"unwrap-or", "o.unwrap_or(ys)", false},
	{"expect", "o.expect(\"some\")", false},
	{"literal", "[e0, e1]", true},
	{"literal-call", "[ident1(e0), e1]", true},
}

// mutStmt returns a statement that changes the contents of the value of type t denoted by expr
// (without rebinding expr itself); cur is one value that expr will hold. ok=false: values of t
// have no mutable contents (scalars, ranges, null, options of such).
func mutStmt(expr string, t vu.Type, cur vu.Val) (string, bool) {
	switch t.K {
	case vu.TList:
		if t.Elem.K == vu.TNull {
			return "", false // a null cannot be passed to push
		}
		for _, e := range vu.Typed(*t.Elem, 2) {
			if l, ok := vu.Literal(e, *t.Elem); ok && e.K != vu.VNone && !(e.K == vu.VList && len(e.Elems) == 0) {
				return fmt.Sprintf("%s.push(%s);", expr, l), true
			}
		}
		return "", false
	case vu.TAnyObj:
		return fmt.Sprintf("%s.set(\"zz\", 1);", expr), true
	case vu.TObj:
		for i, f := range t.Fields {
			sub := vu.Val{}
			if cur.K == vu.VObj && i < len(cur.Vals) {
				sub = cur.Vals[i]
			}
			if s, ok := mutStmt(expr+"."+f.Name, f.T, sub); ok {
				return s, true
			}
		}
		// no field with contents of its own: assign a different value to a field
		for i, f := range t.Fields {
			if cur.K != vu.VObj || i >= len(cur.Vals) {
				break
			}
			for _, alt := range vu.Typed(f.T, 3) {
				if structEq(alt, cur.Vals[i]) || alt.K == vu.VNone {
					continue
				}
				if l, ok := vu.Literal(alt, f.T); ok {
					return fmt.Sprintf("%s.%s = %s;", expr, f.Name, l), true
				}
			}
		}
		return "", false
	case vu.TOpt:
		if cur.K != vu.VSome {
			return "", false
		}
		if s, ok := mutStmt(expr+".unwrap()", *t.Elem, *cur.Inner); ok {
			return fmt.Sprintf("if %s.is_some() { %s }", expr, s), true
		}
		return "", false
	}
	return "", false
}

// snapshotElems picks the two elements of the iterated list: writable values of the type,
// preferring (for the first one) a value whose contents the body can change.
func snapshotElems(t vu.Type, width int) (e0, e1 vu.Val, ok bool) {
	var cands []vu.Val
	for _, v := range vu.Typed(t, width) {
		if _, w := vu.Literal(v, t); w {
			cands = append(cands, v)
		}
	}
	if len(cands) == 0 {
		return e0, e1, false
	}
	// the pools start with the empty / none value and end with the richest one
	e0, e1 = cands[len(cands)-1], cands[0]
	if len(cands) > 2 {
		e1 = cands[len(cands)-2]
	}
	return e0, e1, true
}

// SnapshotProgram builds the program of one element type: one block per (form, body).
func SnapshotProgram(t vu.Type, e0, e1 vu.Val) (text string, tags []string, mutable bool) {
	E := t.Src()
	l0, _ := vu.Literal(e0, t)
	l1, _ := vu.Literal(e1, t)
	mut, mutable := mutStmt("x", t, e0)
	var sb strings.Builder
	fmt.Fprintf(&sb, "let GL: [%s] = [%s, %s];\n", E, l0, l1)
	fmt.Fprintf(&sb, "fn glob() -> [%s] { GL }\n", E)
	fmt.Fprintf(&sb, "fn ident(l: [%s]) -> [%s] { l }\n", E, E)
	fmt.Fprintf(&sb, "fn ident1(e: %s) -> %s { e }\n", E, E)
	fmt.Fprintf(&sb, "fn pick(h: { l: [%s] }) -> [%s] { h.l }\n", E, E)
	sb.WriteString("fn main() {\n    let one = 1;\n")
	setup := func(f iterForm) {
		fmt.Fprintf(&sb, "        let e0: %s = %s;\n        let e1: %s = %s;\n", E, l0, E, l1)
		if f.name == "call-global" {
			sb.WriteString("        GL = [e0, e1];\n        let xs = GL;\n")
		} else {
			sb.WriteString("        let xs = [e0, e1];\n")
		}
		// the independently written second copy, and the original with one more element
		fmt.Fprintf(&sb, "        let ref: [%s] = [%s, %s];\n", E, l0, l1)
		fmt.Fprintf(&sb, "        let ys: [%s] = [%s];\n", E, l1)
		sb.WriteString("        let h = new { l: xs };\n        let w = [xs];\n        let o = ?xs;\n")
		sb.WriteString("        let n = 0;\n        let m = 0;\n")
	}
	for _, f := range iterForms {
		expr := strings.ReplaceAll(f.expr, "%E", E)
		if mutable {
			tag := f.name + "/M"
			tags = append(tags, tag)
			sb.WriteString("    {\n")
			setup(f)
			fmt.Fprintf(&sb, "        for x in %s {\n            n += 1;\n            %s\n        }\n", expr, mut)
			fmt.Fprintf(&sb, "        println(\"#%s\", n, xs == ref, ref == xs, [e0, e1] == ref, h.l == ref, o.unwrap() == ref);\n", tag)
			sb.WriteString("        println(xs);\n        println(\"#=\");\n        println(ref);\n")
			sb.WriteString("    }\n")
		}
		if f.lit {
			continue
		}
		tag := f.name + "/G"
		tags = append(tags, tag)
		sb.WriteString("    {\n")
		setup(f)
		fmt.Fprintf(&sb, "        for x in %s {\n            n += 1;\n            if n == 1 { xs.push(%s); }\n            if n > 6 { break; }\n        }\n", expr, l0)
		fmt.Fprintf(&sb, "        ref.push(%s);\n", l0)
		fmt.Fprintf(&sb, "        println(\"#%s\", n, xs == ref, ref == xs, xs.len());\n", tag)
		sb.WriteString("        println(xs);\n        println(\"#=\");\n        println(ref);\n")
		sb.WriteString("    }\n")

		tag = f.name + "/B"
		tags = append(tags, tag)
		sb.WriteString("    {\n")
		setup(f)
		fmt.Fprintf(&sb, "        for x in %s {\n            n += 1;\n            if n == 1 { break; }\n        }\n", expr)
		fmt.Fprintf(&sb, "        for x in %s {\n            m += 1;\n        }\n", expr)
		fmt.Fprintf(&sb, "        println(\"#%s\", n, m, xs == ref, ref == xs);\n", tag)
		sb.WriteString("        println(xs);\n        println(\"#=\");\n        println(ref);\n")
		sb.WriteString("    }\n")
	}
	sb.WriteString("}\n")
	return sb.String(), tags, mutable
}

// snapshotWant is the line the model of snapshot semantics predicts for a block.
func snapshotWant(tag string) string {
	switch {
	case strings.HasSuffix(tag, "/M"):
		return tag + " 2 true true true true true"
	case strings.HasSuffix(tag, "/G"):
		return tag + " 2 true true 3"
	default:
		return tag + " 1 2 true true"
	}
}

var snapshotLaw = map[string]string{
	"M": "the body changed the contents of the loop variable; the iterated list must still equal an independent copy of its initial contents through every name (columns: iterations, xs == ref, ref == xs, [e0, e1] == ref, h.l == ref, o.unwrap() == ref)",
	"G": "the body pushed to the original on the first iteration; the loop must run over the 2 elements the list had when it started and the original must hold 3 (columns: iterations, xs == ref, ref == xs, xs.len())",
	"B": "the first loop was left by break after 1 iteration; a second loop over the same expression must see both elements (columns: iterations of the first, of the second loop, xs == ref, ref == xs)",
}

func (j *judge) progSnapshot() {
	t := j.p.T
	if t.K == vu.TNull {
		return // a list of nulls cannot be told from another one
	}
	e0, e1, ok := snapshotElems(t, j.p.Width)
	if !ok {
		return
	}
	text, tags, mutable := SnapshotProgram(t, e0, e1)
	j.hashParts = append(j.hashParts, e0.String()+"|"+e1.String())
	vm, tree, aerr := runBoth(text)
	if aerr != "" {
		if strings.Contains(aerr, "Implicit use of 'any'") {
			j.cov("unwritable")
			return
		}
		j.fail("both", "harness", "analyze", "the generated program was not accepted: %s\n%s", aerr, text)
		return
	}
	okBoth := true
	outs := map[string][]string{}
	for _, be := range []struct {
		name string
		r    runOut
	}{{"vm", vm}, {"tree", tree}} {
		if be.r.oc.Class != "ok" {
			j.fail(be.name, "prog-died", be.r.oc.Class+"/"+be.r.oc.Kind+":"+normMsg(be.r.oc.Message), "the program died: %s (output so far %q)\n%s", be.r.oc, clip(be.r.out, 200), text)
			okBoth = false
			continue
		}
		// per block: "#<head>\n<xs>\n#=\n<ref>\n" (renderings may span several lines)
		chunks := strings.Split("\n"+strings.TrimSuffix(be.r.out, "\n"), "\n#")[1:]
		outs[be.name] = chunks
		if len(chunks) != 2*len(tags) {
			j.fail(be.name, "bad-output", "shape", "expected %d blocks, found %d: %q\n%s", 2*len(tags), len(chunks), clip(be.r.out, 300), text)
			okBoth = false
			continue
		}
		for i, tag := range tags {
			j.evals++
			head, shown, _ := strings.Cut(chunks[2*i], "\n")
			ref := strings.TrimPrefix(chunks[2*i+1], "=\n")
			body := tag[strings.LastIndex(tag, "/")+1:]
			if want := snapshotWant(tag); head != want {
				j.fail(be.name, "loop-not-on-a-clone:"+body, tag[:len(tag)-2],
					"`for x in %s` over a list of %s: printed %q, expected %q — %s; elements %s, %s", formExpr(tag, t), t.Src(), head, want, snapshotLaw[body], e0, e1)
				okBoth = false
			} else if shown != ref {
				j.fail(be.name, "loop-clone-render:"+body, tag[:len(tag)-2],
					"`for x in %s` over a list of %s: the iterated list compares equal to the independent copy but renders as %q, the copy as %q", formExpr(tag, t), t.Src(), clip(shown, 160), clip(ref, 160))
				okBoth = false
			} else {
				j.cov(be.name + ":" + body + "-held")
			}
		}
	}
	if !okBoth {
		return
	}
	// both runtimes render equal values as the same text
	for i := range outs["vm"] {
		if outs["vm"][i] != outs["tree"][i] && !hasAny(displayConstructs(e0), j.p.Avoid) && !hasAny(displayConstructs(e1), j.p.Avoid) {
			j.fail("both", "display-differs", "snapshot", "block %d of the loop program over a list of %s is %q on the VM and %q on the interpreter", i, t.Src(), clip(outs["vm"][i], 160), clip(outs["tree"][i], 160))
			return
		}
	}
	if mutable {
		j.nontrivial = true
	} else {
		// no mutable contents below the elements: the G and B histories still ran
		j.nontrivial = true
		j.cov("scalar-elements")
	}
	j.cov("ran-both")
	if j.sample == nil {
		j.sample = map[string]any{"route": "prog-snapshot", "type": t.Src(), "program": clip(text, 600), "vm_output": clip(vm.out, 200)}
	}
}

func formExpr(tag string, t vu.Type) string {
	name := tag[:strings.LastIndex(tag, "/")]
	for _, f := range iterForms {
		if f.name == name {
			return strings.ReplaceAll(f.expr, "%E", t.Src())
		}
	}
	return name
}
