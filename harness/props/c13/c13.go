// Package c13 checks property C13 — "Runtime values obey equality, copy and serialisation laws"
// (DESIGN.md §3 C13) by runtime monitoring of both value libraries of /repo and of generated
// programs on both backends:
//
//	route eq        IsEqual on all ordered pairs of a per-type pool: == structEq, reflexive, symmetric, transitive
//	route clone     (VM library; the interpreter library has no Clone) clone equals the original; random
//	                mutation histories (push/pop/push_front/pop_front/insert/remove/sort via the builtin members,
//	                element / field / option-inner assignment through the pointer, any-object set) replayed on the
//	                clone and then on the original against a shadow model: nothing leaks to the other side
//	route json      to_json -> parse_json -> DeepCast under the type (`as T` and annotated-let flavour) via the
//	                builtin members of both libraries, plus MarshalValue / TypeAwareUnmarshalValue of the VM library
//	route display   Display of the same abstract value built in both libraries is the same text (and stable)
//	route prog-eq   generated programs using ==, !=, println and .to_string() on both backends
//	route prog-json generated programs `a.to_json().parse_json() as T` / `let b: T = ...` on both backends
//	route prog-forms generated programs that put pairs of up to 14 values through every construct defined
//	                by equality (==, !=, through parameters, as branch condition, wrapped into a list / option /
//	                object, list.contains, match arms) on both backends (forms.go)
//	route prog-snapshot generated programs on both backends in which a `for` loop — the one construct by which
//	                a program clones a value — runs over an existing list denoted by every expression form
//	                (variable, field, index, group, block / if / match, cast, calls returning a parameter / a
//	                field / a global, unwrap / unwrap_or / expect, list literals of existing elements) while the
//	                body changes the contents of the loop variable, pushes to the original, or breaks and loops
//	                again (snapshot.go)
//
// The pools of the JSON routes also hold any-objects with `none` in their untyped content (a member
// holding none, alone and next to others, and below an object of the content).
//
// The pools of the eq, display and prog routes contain, next to the structural near misses, the
// closest distinct LEAF values (forms.go: ints that collide as float64 / int32, adjacent floats,
// strings differing in the last rune or by a blank, ranges / any-objects holding such ints) and
// the unicode folds of strings (forms.go strFoldGroups: NFC-normal strings that collide under
// compatibility normalisation, case / width folding, stripping of marks, ignorables or emoji
// modifiers; all groups at a str root, the first two below containers and in any-objects). The
// JSON library route carries one string sampling these classes.
//
// The oracles are the algebraic laws plus valuni.StructEq and a shadow model of the mutations.
package c13

import (
	"fmt"
	"sort"
	"strings"

	"hv/fw"
	vu "hv/valuni"
)

type c13 struct{}

func init() { fw.Register(c13{}) }

func (c13) ID() string { return "C13" }

func (c13) Info(tier string) fw.Info {
	return fw.Info{
		Level: "exploration",
		Rule: "cases: one per (route, library, static type T) over every type of depth <= 2 of {int,float,bool,str,null,range,[T],{a:T},{a:T,b:U},{?},?T} (thorough: wider pools, " +
			"seed-sampled depth-3 types, 10x histories). eq: a pool of values of T containing equal values, single-position near misses (last element, one field, Some/none, " +
			"inclusive/exclusive range, any-object key on one side only), closest distinct leaf values (ints above 2^53 / 2^32 apart, adjacent floats, strings differing in the last rune, NFC-normal strings that collide under compatibility normalisation / case or width folding / stripping of marks, ignorables and emoji modifiers) and unrelated values, all ordered pairs and all triples. clone: every pool value, seed-generated histories of 1-20 " +
			"mutations at random depth. json/display/prog: every pool value that the route can carry; prog-forms: per type and window of leaf-edge groups one program over <= 14 values (thorough 20) printing all pairs through == and !=, and neighbouring pairs through fn parameters, if, [a]==[b], (?a)==(?b), new{w:a}==new{w:b}, [b].contains(a) and match arms. non-trivial = eq: the pool contained both an equal and an unequal pair of distinct " +
			"instances; clone: at least one mutation was applied below the root and both sides were compared afterwards; json: a round trip was completed and compared; " +
			"prog-snapshot: per element type one program with one block per (expression form denoting an existing list, body: M changes the contents of the loop variable / G pushes to the original / B breaks and loops again), judged against snapshot semantics. " +
			"display: both libraries rendered; prog: both backends ran to completion; distinct = distinct (route, lib, type, value list / history seed)",
		Assumptions: []string{
			"structural content: floats compare numerically (-0.0 == 0.0), ranges by start, end and inclusivity, objects by key set and per-key content",
			"JSON-representable: values built from none (null), int, float, bool, str, list, object and any-objects whose content is int / non-integral float / str / bool / list / object; " +
				"ranges, functions, nested options (??T) and null-typed values have no faithful JSON form and are not demanded to round-trip",
			"the interpreter value library has no Clone operation; the copy laws are monitored on the VM library",
			"mutation histories insert freshly built values on each side (sharing introduced by the caller is not a defect)",
			"at program level the `for` loop is the clone operation (it runs on a clone of the iterated value on both back ends): the mutation histories of prog-snapshot are applied through the loop variable and to the iterated list while the loop runs",
		},
		CaseTimeoutS: 120,
		BatchSize:    40,
	}
}

// Known findings of this property and the constructs they poison (see FINDINGS.md).
const (
	kfObjSubset  = "KF-c13-anyobj-eq-subset"
	kfRangeIncl  = "KF-c13-range-eq-inclusive"
	kfKindClash  = "KF-c13-anyobj-eq-kind-panic"
	kfDispOrder  = "KF-c13-display-order"
	kfTreeRange  = "KF-c13-tree-range-display"
	kfNFC        = "KF-c13-vm-string-nfc"
	kfJSONFloat  = "KF-c13-json-integral-float"
	kfJSONNone   = "KF-c13-json-none-dropped"
	kfJSONBigInt = "KF-c13-json-big-int"
	kfTypedAny   = "KF-c13-typed-unmarshal-anyobj"
	kfTreeLetAny = "KF-c13-tree-json-anyobj-let"
	// findings of C12 whose constructs also obstruct C13 routes (cross-property poisons: while
	// they are open the construct is left out here; C12 owns witness and poisoned workload)
	kfC12OptWrap = "KF-c12-opt-wrap-unchecked"
	kfC12TreeAny = "KF-c12-tree-anyobj-rejected"

	cObjSubset  = "eq-anyobj-keys"
	cRangeIncl  = "eq-range-inclusive"
	cKindClash  = "eq-anyobj-kind-clash"
	cDispOrder  = "display-multikey"
	cTreeRange  = "display-range"
	cNFC        = "string-non-nfc"
	cJSONFloat  = "json-integral-float"
	cJSONNone   = "json-none"
	cJSONBigInt = "json-big-int"
	cTypedAny   = "json-typed-anyobj"
	cTreeLetAny = "json-anyobj"
	cOptAnyObj  = "json-opt-anyobj"        // Some(x) with an any-object inside x: needs the wrap rule to convert (C12)
	cTreeAnyVal = "prog-tree-anyobj-check" // interpreter re-validates an any-object against {?} (C12)
)

var kfOf = map[string]string{
	cObjSubset: kfObjSubset, cRangeIncl: kfRangeIncl, cKindClash: kfKindClash, cDispOrder: kfDispOrder,
	cTreeRange: kfTreeRange, cNFC: kfNFC, cJSONFloat: kfJSONFloat, cJSONNone: kfJSONNone, cJSONBigInt: kfJSONBigInt,
	cTypedAny: kfTypedAny, cTreeLetAny: kfTreeLetAny, cOptAnyObj: kfC12OptWrap, cTreeAnyVal: kfC12TreeAny,
}

func openConstructs() []string {
	var out []string
	for c, kf := range kfOf {
		if fw.KFOpen(kf) {
			out = append(out, c)
		}
	}
	sort.Strings(out)
	return out
}

// The non-NFC string of the universe ("e" + combining acute, "A" + combining ring).
const nonNFC = "e\u0301 A\u030a"

type payload struct {
	Route string  `json:"route"`
	Lib   string  `json:"lib"` // vm | tree | both
	T     vu.Type `json:"t"`
	// Gen mode (Vals == nil): the worker derives the pool from (T, Width, Max) and leaves out
	// values / pairs containing a construct listed in Avoid.
	Width int      `json:"w,omitempty"`
	Max   int      `json:"max,omitempty"`
	Avoid []string `json:"avoid,omitempty"`
	Seed  uint64   `json:"seed,omitempty"`
	Hist  int      `json:"hist,omitempty"` // clone: histories per value
	Part  int      `json:"part,omitempty"` // prog-forms: which window of the edge groups
	// Explicit mode: exactly these values (eq: all ordered pairs among them).
	Vals []vu.Val `json:"vals,omitempty"`
}

func has(xs []string, x string) bool {
	for _, y := range xs {
		if x == y {
			return true
		}
	}
	return false
}

func hasAny(xs, ys []string) bool {
	for _, x := range xs {
		if has(ys, x) {
			return true
		}
	}
	return false
}

// ---------------------------------------------------------------------------------------------
// Construct classifiers
// ---------------------------------------------------------------------------------------------

// pairConstructs names the poisonable situations in comparing a with b (same static type).
func pairConstructs(a, b vu.Val) []string {
	var out []string
	keys, incl := false, false
	var walk func(x, y vu.Val)
	walk = func(x, y vu.Val) {
		if x.K != y.K {
			return
		}
		switch x.K {
		case vu.VRange:
			if x.RS == y.RS && x.RE == y.RE && x.RIncl != y.RIncl {
				incl = true
			}
		case vu.VList:
			for i := range x.Elems {
				if i < len(y.Elems) {
					walk(x.Elems[i], y.Elems[i])
				}
			}
		case vu.VObj, vu.VAnyObj:
			if strings.Join(x.Keys, "\x00") != strings.Join(y.Keys, "\x00") {
				keys = true
			}
			for i, k := range x.Keys {
				if z, ok := y.Get(k); ok {
					walk(x.Vals[i], z)
				}
			}
		case vu.VSome:
			walk(*x.Inner, *y.Inner)
		}
	}
	walk(a, b)
	if keys {
		out = append(out, cObjSubset)
	}
	if incl {
		out = append(out, cRangeIncl)
	}
	if vu.KindClash(a, b) {
		out = append(out, cKindClash)
	}
	return out
}

// displayConstructs names the poisonable situations in rendering v.
func displayConstructs(v vu.Val) []string {
	var out []string
	if v.Any(func(x vu.Val) bool { return (x.K == vu.VObj || x.K == vu.VAnyObj) && len(x.Keys) >= 2 }) {
		out = append(out, cDispOrder)
	}
	if v.HasVKind(vu.VRange) {
		out = append(out, cTreeRange)
	}
	if v.Any(func(x vu.Val) bool { return x.K == vu.VStr && x.S == nonNFC }) {
		out = append(out, cNFC)
	}
	return out
}

// jsonCarries reports whether the value is JSON-representable under t at all (the json routes do
// not apply otherwise).
func jsonCarries(v vu.Val, t vu.Type) bool {
	if t.HasNestedOption() || t.HasKind(vu.TRange) || t.HasKind(vu.TNull) {
		return false
	}
	if t.K != vu.TList && t.K != vu.TObj && t.K != vu.TAnyObj {
		return false // to_json is a member of lists, objects and any-objects
	}
	carry := true
	var walk func(x vu.Val, inAny bool)
	walk = func(x vu.Val, inAny bool) {
		switch x.K {
		case vu.VNone:
			// `none` is written as null and null is read back as none, typed or untyped
		case vu.VSome:
			if inAny {
				carry = false // Some(x) is written as x and comes back from untyped content as x
			}
			walk(*x.Inner, inAny)
		case vu.VNull, vu.VRange:
			carry = false
		case vu.VList:
			for _, e := range x.Elems {
				walk(e, inAny)
			}
		case vu.VObj:
			for _, e := range x.Vals {
				walk(e, inAny)
			}
		case vu.VAnyObj:
			if inAny {
				carry = false // comes back as an object
			}
			for _, e := range x.Vals {
				walk(e, true)
			}
		}
	}
	walk(v, false)
	return carry
}

// jsonConstructs names the poisonable situations in a JSON round trip of v under t in a library
// and mode ("as", "let", "go-typed", or "" for the serialisation step alone).
func jsonConstructs(v vu.Val, t vu.Type, lib, mode string) []string {
	var out []string
	if v.Any(func(x vu.Val) bool { return x.IsIntegralFloat() }) {
		out = append(out, cJSONFloat)
	}
	if v.HasVKind(vu.VNone) {
		out = append(out, cJSONNone)
	}
	if v.Any(func(x vu.Val) bool { return x.K == vu.VInt && (x.I > 1<<53 || x.I < -(1<<53)) }) {
		out = append(out, cJSONBigInt)
	}
	for _, tp := range vu.TypedPositions(v, t) {
		// Some(x) is written as x; read back, x meets ?U as a non-option and must be converted
		// (objects into any-objects) by the wrap rule
		if tp.T.K == vu.TOpt && tp.V.K == vu.VSome && tp.V.Inner.HasVKind(vu.VAnyObj) {
			out = append(out, cOptAnyObj)
			break
		}
	}
	if mode == "go-typed" && t.HasKind(vu.TAnyObj) {
		out = append(out, cTypedAny)
	}
	if lib == "tree" && mode == "let" && t.HasKind(vu.TAnyObj) {
		out = append(out, cTreeLetAny)
	}
	return out
}

// progConstructs names the situations in merely WRITING a value in a program that run into a
// finding of another property.
func progConstructs(v vu.Val, t vu.Type) []string {
	if t.HasKind(vu.TAnyObj) && v.HasVKind(vu.VAnyObj) && v.HasVKind(vu.VNone) {
		// `none` makes the initialiser any-typed, the interpreter then re-validates the whole value
		return []string{cTreeAnyVal}
	}
	return nil
}

// ---------------------------------------------------------------------------------------------
// Pools
// ---------------------------------------------------------------------------------------------

// pool returns the value pool of a case: in gen mode the base pool plus, on the routes that compare
// or render values (eq, display, prog-eq), the precision-edge values of the type (forms.go). The
// clone and json routes keep the base pool: histories do not depend on leaf content, and integers
// beyond 2^53 are an open finding of the JSON routes.
func pool(p payload) []vu.Val {
	vals := basePool(p)
	if p.Vals != nil {
		return vals
	}
	switch p.Route {
	case "eq", "display", "prog-eq":
		seen := map[string]bool{}
		for _, v := range vals {
			seen[v.String()] = true
		}
		for _, e := range edgeValues(p.T, p.Width) {
			if !seen[e.String()] {
				seen[e.String()] = true
				vals = append(vals, e)
			}
		}
	}
	return vals
}

// basePool returns the value pool of a gen-mode case without the edge values.
func basePool(p payload) []vu.Val {
	if p.Vals != nil {
		return p.Vals
	}
	vals := vu.EqPool(p.T, p.Width, p.Max, true)
	// unicode edge: one non-NFC string wherever a str leaf is reachable at the root or one level down
	if !has(p.Avoid, cNFC) {
		for _, tp := range vu.TypedPositions(vals[0], p.T) {
			if tp.T.K == vu.TStr {
				vals = append(vals, replaceAt(vals[0], tp.Path, vu.StrV(nonNFC)))
				break
			}
		}
	}
	// the JSON routes: `none` inside the UNTYPED content of an any-object (a member that holds none,
	// alone and next to other members, and below an object of the content): null is the one JSON
	// node whose reading does not depend on the type, so the key must survive without a type that
	// names it
	if p.Route == "json" || p.Route == "prog-json" {
		vals = append(vals, untypedNoneVariants(vals, p.T)...)
	}
	// the JSON routes: one string that carries a member of most fold classes of forms.go (the text
	// must come back code point for code point)
	if p.Route == "json" || p.Route == "prog-json" {
	search:
		for _, v := range vals {
			for _, tp := range vu.TypedPositions(v, p.T) {
				if tp.T.K == vu.TStr {
					vals = append(vals, replaceAt(v, tp.Path, vu.StrV(foldSampler)))
					break search
				}
			}
		}
	}
	return vals
}

// untypedNoneVariants returns, for the first pool value with a non-empty any-object at a typed
// position and for the first one with an empty any-object, copies in which that any-object holds
// none: as an additional member, as its only member, and as a member of an object in its content.
func untypedNoneVariants(vals []vu.Val, t vu.Type) []vu.Val {
	var out []vu.Val
	doneFull, doneEmpty := false, false
	for _, v := range vals {
		for _, tp := range vu.TypedPositions(v, t) {
			if tp.T.K != vu.TAnyObj || tp.V.K != vu.VAnyObj {
				continue
			}
			if len(tp.V.Keys) > 0 && !doneFull {
				doneFull = true
				out = append(out, replaceAt(v, tp.Path, tp.V.With("nn", vu.NoneV())))
				out = append(out, replaceAt(v, tp.Path, tp.V.With("on", vu.ObjV(kv("p", vu.IntV(7)), kv("q", vu.NoneV())))))
			} else if len(tp.V.Keys) == 0 && !doneEmpty {
				doneEmpty = true
				out = append(out, replaceAt(v, tp.Path, vu.AnyObjV(kv("nn", vu.NoneV()))))
			}
		}
		if doneFull && doneEmpty {
			break
		}
	}
	return out
}

func replaceAt(v vu.Val, p vu.Path, x vu.Val) vu.Val {
	if len(p) == 0 {
		return x
	}
	o := v.Copy()
	switch p[0].Kind {
	case 'f':
		cur, _ := o.Get(p[0].Name)
		return o.With(p[0].Name, replaceAt(cur, p[1:], x))
	case 'i':
		o.Elems[p[0].Index] = replaceAt(o.Elems[p[0].Index], p[1:], x)
	case 'o':
		n := replaceAt(*o.Inner, p[1:], x)
		o.Inner = &n
	}
	return o
}

// ---------------------------------------------------------------------------------------------
// Cases
// ---------------------------------------------------------------------------------------------

func (c13) Cases(tier string, seed uint64) []fw.Case {
	thorough := tier == "thorough"
	r := fw.NewRng(seed ^ 0xC13)
	types := vu.TypesUpTo2()
	width, max, hist, progN, formsN := 2, 14, 4, 3, 14
	if thorough {
		width, max, hist, progN, formsN = 3, 24, 40, 12, 20
		seen := map[string]bool{}
		for len(seen) < 300 {
			t := vu.SampleDepth3(r)
			if !seen[t.Src()] {
				seen[t.Src()] = true
				types = append(types, t)
			}
		}
	}
	avoid := openConstructs()
	var cases []fw.Case
	n := 0
	add := func(p payload, tags ...string) {
		cases = append(cases, fw.MkCase(fmt.Sprintf("c13-%s-%s-%04d", p.Route, p.Lib, n), p.Route, p, tags...))
		n++
	}
	for _, t := range types {
		for _, lib := range []string{"vm", "tree"} {
			add(payload{Route: "eq", Lib: lib, T: t, Width: width, Max: max, Avoid: avoid})
			if t.K == vu.TList || t.K == vu.TObj || t.K == vu.TAnyObj {
				if jsonCarries(vu.Typed(t, 2)[0], t) {
					add(payload{Route: "json", Lib: lib, T: t, Width: width, Max: max, Avoid: avoid})
				}
			}
		}
		add(payload{Route: "clone", Lib: "vm", T: t, Width: width, Max: max, Avoid: avoid, Seed: r.Next(), Hist: hist})
		add(payload{Route: "display", Lib: "both", T: t, Width: width, Max: max, Avoid: avoid})
		add(payload{Route: "prog-eq", Lib: "both", T: t, Width: width, Max: progN, Avoid: avoid, Seed: r.Next()})
		parts := len(edgeWindows(t, width, formsKeep(formsN)))
		for part := 0; part < parts || part == 0; part++ {
			add(payload{Route: "prog-forms", Lib: "both", T: t, Width: width, Max: formsN, Avoid: avoid, Part: part})
		}
		if t.K != vu.TNull {
			add(payload{Route: "prog-snapshot", Lib: "both", T: t, Width: width, Avoid: avoid})
		}
		if t.K == vu.TList || t.K == vu.TObj || t.K == vu.TAnyObj {
			if jsonCarries(vu.Typed(t, 2)[0], t) {
				add(payload{Route: "prog-json", Lib: "both", T: t, Width: width, Max: progN, Avoid: avoid, Seed: r.Next()})
			}
		}
	}
	cases = append(cases, poisoned(avoid, seed, &n)...)
	return cases
}

func (c13) Run(c fw.Case) (res fw.Result) {
	var p payload
	fw.Decode(c, &p)
	j := &judge{p: p, cover: map[string]int{}}
	switch p.Route {
	case "eq":
		j.eq()
	case "clone":
		j.clone()
	case "json":
		j.json()
	case "display":
		j.display()
	case "prog-eq":
		j.progEq()
	case "prog-json":
		j.progJSON()
	case "prog-forms":
		j.progForms()
	case "prog-snapshot":
		j.progSnapshot()
	default:
		return fw.Result{Verdict: fw.Inconclusive, Why: "unknown route " + p.Route}
	}
	res = fw.Result{Verdict: fw.Held, Evals: j.evals, Nontrivial: j.nontrivial}
	if res.Evals == 0 {
		res.Evals = 1
	}
	res.Hash = fw.HashOf(p.Route, p.Lib, p.T.Src(), j.hashParts)
	for k := range j.cover {
		res.Cover = append(res.Cover, k)
	}
	sort.Strings(res.Cover)
	res.Obs = map[string]int64{}
	for k, n := range j.cover {
		res.Obs["n:"+k] = int64(n)
	}
	if len(j.fails) > 0 {
		res.Verdict = fw.Violated
		res.Why, res.Sig, res.Detail = j.fails[0].Why, j.fails[0].Sig, j.fails[0].Detail
		seen := map[string]bool{res.Sig: true}
		for _, f := range j.fails[1:] {
			if !seen[f.Sig] {
				seen[f.Sig] = true
				res.More = append(res.More, f)
			}
		}
	}
	if j.sample != nil && (strings.HasSuffix(c.ID, "7") || strings.HasSuffix(c.ID, "2")) {
		res.Sample = j.sample
	}
	return res
}

func (c13) OnCrash(c fw.Case, cr fw.Crash) fw.Result {
	var p payload
	fw.Decode(c, &p)
	switch cr.Kind {
	case "watchdog", "killed":
		return fw.Result{Verdict: fw.Inconclusive, Why: cr.Kind + ": " + cr.Message}
	}
	return fw.Result{Verdict: fw.Violated, Nontrivial: true,
		Sig: fmt.Sprintf("c13:%s:%s:crash:%s:%s", p.Lib, p.Route, cr.Kind, normMsg(cr.Message)),
		Why: fmt.Sprintf("worker died (%s: %s) at %s on route %s for type %s", cr.Kind, clip(cr.Message, 200), cr.TopFrame, p.Route, p.T.Src())}
}

// judge accumulates the verdicts of one case.
type judge struct {
	p          payload
	fails      []fw.SubViolation
	cover      map[string]int
	evals      int64
	nontrivial bool
	hashParts  []string
	sample     any
}

func (j *judge) fail(lib, class, detail string, format string, args ...any) {
	sig := fmt.Sprintf("c13:%s:%s:%s:%s", lib, j.p.Route, class, detail)
	why := fmt.Sprintf("[%s/%s] type %s: ", j.p.Route, lib, j.p.T.Src()) + fmt.Sprintf(format, args...)
	j.fails = append(j.fails, fw.SubViolation{Why: why, Sig: sig})
}

func (j *judge) cov(k string) { j.cover[j.p.Route+":"+k]++ }

func clip(s string, n int) string {
	if len(s) > n {
		return s[:n] + "…"
	}
	return s
}

func normMsg(s string) string {
	if i := strings.Index(s, "\n"); i >= 0 {
		s = s[:i]
	}
	var sb strings.Builder
	digits := false
	for _, r := range s {
		if r >= '0' && r <= '9' {
			if !digits {
				sb.WriteByte('N')
			}
			digits = true
			continue
		}
		digits = false
		sb.WriteRune(r)
	}
	return clip(sb.String(), 90)
}
