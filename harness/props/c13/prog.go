package c13

import (
	"bytes"
	"encoding/json"
	"fmt"
	"sort"
	"strings"

	"hv/drive"
	"hv/fw"
	vu "hv/valuni"
)

type runOut struct {
	out string
	oc  drive.Outcome
}

// runBoth analyses a program and runs it on the VM and on the interpreter.
func runBoth(text string) (vm, tree runOut, analyzeErr string) {
	src := drive.Sources{"main": text}
	ao := drive.Analyze(src, "main", true)
	if ao.Errors > 0 {
		return vm, tree, ao.ErrorSummary()
	}
	r := drive.RunVM(ao.Modules, src, "main", drive.VMOpts{StepBudget: 500_000})
	vm = runOut{r.Log.Output(), r.Outcome}
	ao = drive.Analyze(src, "main", true)
	tr := drive.RunTree(ao.Modules, src, "main", drive.TreeOpts{StepBudget: 500_000})
	tree = runOut{tr.Log.Output(), tr.Outcome}
	return vm, tree, ""
}

func between(s, open, close string) (string, bool) {
	i := strings.Index(s, open)
	if i < 0 {
		return "", false
	}
	rest := s[i+len(open):]
	k := strings.Index(rest, close)
	if k < 0 {
		return "", false
	}
	return rest[:k], true
}

func b2s(b bool) string {
	if b {
		return "true"
	}
	return "false"
}

// EqProgram builds the program that compares three values of one static type and renders the
// first one. withDisplay / withToString switch the rendering lines on.
func EqProgram(t vu.Type, a, b, c vu.Val, withDisplay, withToString, annotate bool) (string, bool) {
	la, ok1 := vu.Literal(a, t)
	lb, ok2 := vu.Literal(b, t)
	lc, ok3 := vu.Literal(c, t)
	if !ok1 || !ok2 || !ok3 {
		return "", false
	}
	var sb strings.Builder
	ty := ": " + t.Src()
	if !annotate {
		ty = ""
	}
	sb.WriteString("fn main() {\n")
	fmt.Fprintf(&sb, "    let a%s = %s;\n    let b%s = %s;\n    let c%s = %s;\n    let a2%s = %s;\n", ty, la, ty, lb, ty, lc, ty, la)
	sb.WriteString("    println(\"E\", a == b, b == a, a == a2, a2 == a, b == c, a == c, a != b, a == a);\n")
	if withDisplay {
		sb.WriteString("    println(\"<D>\");\n    println(a);\n    println(\"</D>\");\n")
	}
	if withToString {
		sb.WriteString("    println(\"<S>\");\n    println(a.to_string());\n    println(\"</S>\");\n")
	}
	sb.WriteString("}\n")
	return sb.String(), true
}

func (j *judge) progEq() {
	t := j.p.T
	vals := pool(j.p)
	// only values that can be written as literals
	var lit []vu.Val
	for _, v := range vals {
		if _, ok := vu.Literal(v, t); ok {
			lit = append(lit, v)
		}
	}
	if len(lit) == 0 {
		return
	}
	r := fw.NewRng(j.p.Seed)
	type triple struct{ a, b, c vu.Val }
	var triples []triple
	if j.p.Vals != nil {
		// explicit mode: consecutive triples (wrapping)
		for i := 0; i+2 < len(lit) || i == 0; i += 3 {
			triples = append(triples, triple{lit[i%len(lit)], lit[(i+1)%len(lit)], lit[(i+2)%len(lit)]})
		}
	} else {
		n := len(lit)
		for k := 0; k < j.p.Max*6 && len(triples) < j.p.Max; k++ {
			i := r.Intn(n)
			tr := triple{lit[i], lit[(i+1)%n], lit[r.Intn(n)]}
			if k == 0 {
				tr = triple{lit[i], lit[i], lit[i]}
			}
			if k == 1 {
				tr = triple{lit[i], lit[i], lit[(i+1)%n]}
			}
			if hasAny(pairConstructs(tr.a, tr.b), j.p.Avoid) || hasAny(pairConstructs(tr.b, tr.c), j.p.Avoid) || hasAny(pairConstructs(tr.a, tr.c), j.p.Avoid) {
				continue
			}
			if hasAny(progConstructs(tr.a, t), j.p.Avoid) || hasAny(progConstructs(tr.b, t), j.p.Avoid) || hasAny(progConstructs(tr.c, t), j.p.Avoid) {
				continue
			}
			triples = append(triples, tr)
		}
	}
	for _, tr := range triples {
		a, b, c := tr.a, tr.b, tr.c
		j.hashParts = append(j.hashParts, a.String()+"|"+b.String()+"|"+c.String())
		showD := t.K != vu.TNull && !hasAny(displayConstructs(a), j.p.Avoid)
		// to_string is not offered for every kind (and is missing for ranges on the VM: C18)
		showS := showD && t.K != vu.TRange && t.K != vu.TStr
		var vm, tree runOut
		var text string
		// a type annotation makes the interpreter re-validate values whose initialiser is partly
		// any-typed; the annotation is only needed for top-level `none`
		annotate := !t.HasKind(vu.TAnyObj) || t.K == vu.TOpt
		for attempt := 0; ; attempt++ {
			var ok bool
			text, ok = EqProgram(t, a, b, c, showD, showS, annotate)
			if !ok {
				break
			}
			var aerr string
			vm, tree, aerr = runBoth(text)
			if aerr == "" {
				break
			}
			switch {
			case showS:
				showS = false
			case showD:
				showD = false
			case !annotate || strings.Contains(aerr, "Implicit use of 'any'"):
				// not writable (nested none / empty literal the analyzer cannot type): leave the triple out
				j.cov("unwritable")
				text = ""
			default:
				j.fail("both", "harness", "analyze", "the generated program was not accepted: %s\n%s", aerr, text)
				text = ""
			}
			if text == "" {
				break
			}
		}
		if text == "" {
			continue
		}
		j.evals++
		want := "E " + strings.Join([]string{
			b2s(structEq(a, b)), b2s(structEq(b, a)), "true", "true", b2s(structEq(b, c)), b2s(structEq(a, c)), b2s(!structEq(a, b)), "true"}, " ")
		okBoth := true
		for _, be := range []struct {
			name string
			r    runOut
		}{{"vm", vm}, {"tree", tree}} {
			if be.r.oc.Class != "ok" {
				j.fail(be.name, "prog-died", be.r.oc.Class+"/"+be.r.oc.Kind+":"+normMsg(be.r.oc.Message), "the program died: %s\n%s", be.r.oc, text)
				okBoth = false
				continue
			}
			first := be.r.out
			if i := strings.Index(first, "\n"); i >= 0 {
				first = first[:i]
			}
			if first != want {
				// attribute by the first differing comparison
				names := []string{"a==b", "b==a", "a==a2", "a2==a", "b==c", "a==c", "a!=b", "a==a"}
				gf, wf := strings.Fields(first), strings.Fields(want)
				which := "shape"
				if len(gf) == len(wf) {
					for i := 1; i < len(gf); i++ {
						if gf[i] != wf[i] {
							which = names[i-1]
							break
						}
					}
				}
				j.fail(be.name, "eq-mismatch", progEqAttribution(a, b, c, gf, wf, t)+":"+which,
					"`==` disagrees with the structural contents: printed %q, expected %q for a = %s, b = %s, c = %s", first, want, a, b, c)
				okBoth = false
			}
		}
		if !okBoth {
			continue
		}
		if showD {
			dv, ok1 := between(vm.out, "<D>\n", "\n</D>")
			dt, ok2 := between(tree.out, "<D>\n", "\n</D>")
			if !ok1 || !ok2 {
				j.fail("both", "harness", "markers", "display markers missing in %q / %q", clip(vm.out, 200), clip(tree.out, 200))
				continue
			}
			if dv != dt {
				attr := displayAttribution(a, dv, dt)
				if has(displayConstructs(a), cDispOrder) && sameLines(dv, dt) {
					attr = "key-order"
				}
				j.fail("both", "display-differs", attr, "println renders %s as %q on the VM and as %q on the interpreter", a, clip(dv, 160), clip(dt, 160))
			}
			if showS {
				for _, be := range []struct{ name, out, d string }{{"vm", vm.out, dv}, {"tree", tree.out, dt}} {
					s, ok := between(be.out, "<S>\n", "\n</S>")
					if !ok {
						j.fail(be.name, "harness", "markers", "to_string markers missing")
					} else if s != be.d && !has(displayConstructs(a), cDispOrder) {
						j.fail(be.name, "to-string-differs", t.Shape(), "to_string() of %s is %q but println renders %q", a, clip(s, 160), clip(be.d, 160))
					}
				}
			}
		}
		j.nontrivial = true
		j.cov("ran-both")
		if j.sample == nil {
			j.sample = map[string]any{"route": "prog-eq", "type": t.Src(), "program": clip(text, 400), "vm_output": clip(vm.out, 200)}
		}
	}
}

// sameLines: the two renderings consist of the same lines (commas aside) in a different order.
func sameLines(x, y string) bool {
	norm := func(s string) string {
		ls := strings.Split(s, "\n")
		for i := range ls {
			ls[i] = strings.TrimSuffix(strings.TrimSpace(ls[i]), ",")
		}
		sort.Strings(ls)
		return strings.Join(ls, "\n")
	}
	return norm(x) == norm(y)
}

// progEqAttribution attributes a wrong printed comparison to the known behaviours.
func progEqAttribution(a, b, c vu.Val, got, want []string, t vu.Type) string {
	if len(got) != len(want) {
		return t.Shape()
	}
	pairs := [][2]vu.Val{{a, b}, {b, a}, {a, a}, {a, a}, {b, c}, {a, c}, {a, b}, {a, a}}
	for i := 1; i < len(got); i++ {
		if got[i] != want[i] {
			x, y := pairs[i-1][0], pairs[i-1][1]
			obs := got[i] == "true"
			if i == 7 {
				obs = !obs
			}
			// the VM evaluates `x == y` as y.IsEqual(x); accept the attribution in either direction
			d1, d2 := eqAttribution(x, y, obs, t), eqAttribution(y, x, obs, t)
			if d1 != t.Shape() {
				return d1
			}
			return d2
		}
	}
	return t.Shape()
}

// JSONProgram builds the program that serialises a value and parses it back under its type.
func JSONProgram(t vu.Type, a vu.Val, explicit bool) (string, bool) {
	la, setup, ok := literalWithSetup(a, t, "a")
	if !ok {
		return "", false
	}
	if setup != "" {
		la += ";\n" + strings.TrimSuffix(strings.TrimSuffix(setup, "\n"), ";")
	}
	ty := t.Src()
	crossing := fmt.Sprintf("let back: %s = s.parse_json();", ty)
	if explicit {
		crossing = fmt.Sprintf("let back = s.parse_json() as %s;", ty)
	}
	return "fn main() {\n" +
		fmt.Sprintf("    let a: %s = %s;\n", ty, la) +
		"    let s = a.to_json();\n" +
		"    println(s);\n" +
		"    let r = try {\n" +
		"        " + crossing + "\n" +
		"        println(\"R\", back == a, a == back);\n" +
		"        0\n" +
		"    } catch e {\n" +
		"        println(\"X\", e.message);\n" +
		"        1\n" +
		"    };\n" +
		"    println(\"done\", r);\n" +
		"}\n", true
}

// literalWithSetup writes v as an expression of type t plus statements that complete the value
// once it is bound to the variable `name`. A `none` has no natural type, so an any-object member
// that holds none cannot be part of the cast object literal: it is left out of the literal and put
// in place by `<path>.set("key", none);` (only for any-objects at typed positions that are
// reached without passing an option).
func literalWithSetup(v vu.Val, t vu.Type, name string) (lit, setup string, ok bool) {
	if lit, ok = vu.Literal(v, t); ok {
		return lit, "", true
	}
	stripped := v
	var sb strings.Builder
	for _, tp := range vu.TypedPositions(v, t) {
		if tp.T.K != vu.TAnyObj || tp.V.K != vu.VAnyObj {
			continue
		}
		opt := false
		for _, e := range tp.Path {
			opt = opt || e.Kind == 'o'
		}
		cur := tp.V
		for i, k := range tp.V.Keys {
			if tp.V.Vals[i].K == vu.VNone && !opt && !strings.ContainsAny(k, "\"\\") {
				cur = cur.Without(k)
				fmt.Fprintf(&sb, "    %s%s.set(\"%s\", none);\n", name, tp.Path.Render(false), k)
			}
		}
		if len(cur.Keys) != len(tp.V.Keys) {
			stripped = replaceAt(stripped, tp.Path, cur)
		}
	}
	if sb.Len() == 0 {
		return "", "", false
	}
	lit, ok = vu.Literal(stripped, t)
	return lit, sb.String(), ok
}

func (j *judge) progJSON() {
	t := j.p.T
	vals := pool(j.p)
	// the values with none in untyped content are run in addition to the first Max values
	extra := map[string]bool{}
	if j.p.Vals == nil {
		for _, v := range untypedNoneVariants(vals, t) {
			extra[v.String()] = true
		}
	}
	count := 0
	for _, v := range vals {
		if j.p.Vals == nil && count >= j.p.Max && !extra[v.String()] {
			continue
		}
		if !jsonCarries(v, t) {
			continue
		}
		if hasAny(jsonConstructs(v, t, "vm", ""), j.p.Avoid) || hasAny(progConstructs(v, t), j.p.Avoid) {
			continue
		}
		if _, _, ok := literalWithSetup(v, t, "a"); !ok {
			continue
		}
		if !extra[v.String()] {
			count++
		}
		j.hashParts = append(j.hashParts, v.String())
		for _, explicit := range []bool{true, false} {
			mode := map[bool]string{true: "as", false: "let"}[explicit]
			text, _ := JSONProgram(t, v, explicit)
			vm, tree, aerr := runBoth(text)
			if strings.Contains(aerr, "Implicit use of 'any'") {
				// a nested `none` / empty literal the analyzer cannot type: the value is not writable
				j.cov("unwritable")
				continue
			}
			if aerr != "" {
				j.fail("both", "harness", "analyze", "the generated program was not accepted: %s\n%s", aerr, text)
				continue
			}
			j.evals++
			for _, be := range []struct {
				name string
				r    runOut
			}{{"vm", vm}, {"tree", tree}} {
				cs := jsonConstructs(v, t, be.name, mode)
				if hasAny(cs, j.p.Avoid) {
					continue
				}
				detail := consDetail(cs)
				held := libView(be.name, v)
				lines := strings.Split(strings.TrimSuffix(be.r.out, "\n"), "\n")
				// the serialised text
				if len(lines) >= 1 && lines[0] != "" {
					dec := json.NewDecoder(bytes.NewReader([]byte(lines[0])))
					dec.UseNumber()
					var raw any
					if e := dec.Decode(&raw); e != nil {
						j.fail(be.name, "text-invalid", consDetail(jsonConstructs(v, t, be.name, "")), "to_json of %s printed %q, which is not JSON", v, clip(lines[0], 200))
					} else if ref, rerr := refFromJSON(raw, t); rerr != nil || !structEq(ref, held) {
						j.fail(be.name, "text-wrong", consDetail(jsonConstructs(v, t, be.name, "")), "to_json of %s is %s, which under %s denotes %s (%v)", v, clip(lines[0], 200), t.Src(), ref, rerr)
					}
				}
				switch {
				case be.r.oc.Class == "fatal" && be.r.oc.Kind == "CastError":
					j.fail(be.name, "roundtrip-rejected:"+mode, detail, "%s does not survive to_json -> parse_json under %s (%s): %s (output %q)", v, t.Src(), mode, be.r.oc, clip(be.r.out, 200))
				case be.r.oc.Class != "ok":
					j.fail(be.name, "prog-died", be.r.oc.Class+"/"+be.r.oc.Kind+":"+normMsg(be.r.oc.Message), "the program died: %s\n%s", be.r.oc, text)
				case len(lines) == 3 && strings.HasPrefix(lines[1], "X ") && lines[2] == "done 1":
					j.fail(be.name, "roundtrip-rejected:"+mode, detail, "%s serialises to %s, which is rejected when parsed back under %s (%s): %s", v, clip(lines[0], 200), t.Src(), mode, clip(lines[1], 200))
				case len(lines) == 3 && lines[1] == "R true true" && lines[2] == "done 0":
					j.nontrivial = true
					j.cov(be.name + ":roundtrip-ok:" + mode)
				case len(lines) == 3 && strings.HasPrefix(lines[1], "R ") && lines[2] == "done 0":
					j.fail(be.name, "roundtrip-differs:"+mode, detail, "%s serialises to %s; the value parsed back under %s (%s) compares %q with the original", v, clip(lines[0], 200), t.Src(), mode, lines[1])
				default:
					j.fail(be.name, "bad-output", mode, "unexpected output %q of\n%s", clip(be.r.out, 300), text)
				}
			}
			if j.sample == nil {
				j.sample = map[string]any{"route": "prog-json", "type": t.Src(), "program": clip(text, 400), "vm_output": clip(vm.out, 200)}
			}
		}
	}
}
