package c13

import (
	"fmt"
	"math"
	"strings"

	"hv/drive"
	vu "hv/valuni"
)

// ---------------------------------------------------------------------------------------------
// Precision edges: the closest DISTINCT values of every leaf kind
// ---------------------------------------------------------------------------------------------
//
// "holds exactly when the values have the same structural content" is decided at the leaves, and
// the leaf comparisons that go wrong are the ones that funnel a value through a narrower
// representation (int64 -> float64 / int32, float64 -> float32 / a tolerance, strings through a
// trim / case fold / length compare). Each group below lists distinct values that collide under
// one such narrowing; a group is always added as a whole so that the colliding pair meets in the
// all-pairs comparisons.

var intEdgeGroups = [][]int64{
	{1 << 53, 1<<53 + 1, 1<<53 + 2},         // float64: 2^53+1 rounds to 2^53 (or to 2^53+2)
	{math.MaxInt64 - 1, math.MaxInt64},      // float64: both round to 2^63
	{1, 1<<32 + 1},                          // int32 / uint32 truncation
	{math.MinInt64, math.MinInt64 + 1},      // float64: both round to -2^63
	{-(1 << 53), -(1 << 53) - 1},            // float64, negative side
	{1<<62 + 1, 1 << 62, -(1 << 62) - 1},    // float64 in the middle of the range; sign
	{math.MaxInt32, math.MinInt32, 1 << 31}, // int32 wrap
}

var floatEdgeGroups = [][]float64{
	{9007199254740992, 9007199254740994},   // adjacent float64 above 2^53 (integral)
	{0.1, 0.10000000000000002},             // adjacent float64 (one ulp)
	{16777216, 16777217},                   // float32: 2^24+1 rounds to 2^24
	{1.5, 1.5000000001},                    // float32 / relative tolerance
	{0.3, 0.30000000000000004},             // 0.1 + 0.2
	{1e15, 1e15 + 0.125, 1000000000000001}, // fixed-precision text comparison
	{-2.5, 2.5},                            // sign
}

var strEdgeGroups = [][]string{
	{"héllo wörld ✓", "héllo wörld ✗"}, // same length, last rune differs
	{"a", "a ", "A", " a"},             // trim / case fold
	{"日本語", "日本誤"},                     // same byte length, last byte differs
	{"ab", "a", "abc"},                 // prefix
}

// Unicode folds: distinct strings that collide under one of the text transformations a string
// library is tempted to apply on construction or comparison — compatibility normalisation (NFKC /
// NFKD: ligatures, circled / superscript / full-width / mathematical forms, unit and letter-like
// symbols, the non-ASCII blanks), case folding with its special cases (sharp s, dotted / dotless i,
// final sigma, title-case digraphs), stripping of marks, of default-ignorable code points (zero
// width space / joiner, soft hyphen, BOM) and of emoji modifiers, and narrowing to the BMP. Every
// string here is NFC-normal (checked with x/text/unicode/norm when the list was written), because
// NFC-normalisation itself is what the VM library does today (open finding KF-c13-vm-string-nfc,
// whose construct — a string that is NOT NFC-normal — lives in the poisoned workload); none
// contains a quote, a backslash or a control character, so all can be written as literals.
// Invisible and look-alike code points are spelled as escapes.
var strFoldGroups = [][]string{
	// compatibility: ligature fi, circled digit one
	{"\ufb01n\u2460", "fin1", "\ufb01n1"},
	// case fold, full: sharp s
	{"stra\u00dfe", "strasse", "STRASSE"},
	// width: full-width Latin / digit, half-width katakana
	{"\uff21\uff42\uff11 \uff76", "Ab1 \u30ab"},
	// compatibility: superscript, Roman numeral, unit, trade mark
	{"x\u00b2 \u216b \u338f \u2122", "x2 XII kg TM"},
	// blanks: no-break, ideographic, em space
	{"p q", "p\u00a0q", "p\u3000q", "p\u2003q"},
	// case fold: dotted capital I, dotless small i
	{"\u0130i", "Ii", "ii", "\u0131i"},
	// case fold: final sigma
	{"\u03cc\u03c2", "\u03cc\u03c3", "\u038c\u03a3"},
	// mark stripping / canonical decomposition (precomposed Latin, Hangul syllables)
	{"\u00e9", "e", "\u00c9", "\ud55c\uae00", "\ud55c\uad74"},
	// default ignorables: ZWSP, soft hyphen, ZWJ, BOM
	{"cd", "c\u200bd", "c\u00add", "c\u200dd", "c\ufeffd"},
	// combining sequences without a precomposed form
	{"q\u0323\u0307", "q\u0323", "q\u0307"},
	// emoji: ZWJ sequence, skin tone, variation selector
	{"\U0001f468\u200d\U0001f469\u200d\U0001f467", "\U0001f468\U0001f469\U0001f467", "\U0001f44d\U0001f3fd", "\U0001f44d", "\u2764\ufe0f", "\u2764"},
	// supplementary planes: mathematical bold (compatibility), last byte of a 4-byte sequence
	{"\U0001d400\U0001d7cf", "A1", "\U0001f600", "\U0001f601"},
	// title case: the dz-caron digraph in its three cases
	{"\u01c6", "\u01c5", "\u01c4"},
}

// foldSampler is one NFC-normal string with a member of most fold classes (ligature, circled digit,
// full-width letter, sharp s, dotted capital I, no-break space, zero width space, emoji with skin
// tone, mathematical bold letter, combining sequence without a precomposed form).
const foldSampler = "\ufb01\u2460 \uff21\u00df\u0130\u00a0c\u200bd \U0001f44d\U0001f3fd \U0001d400 q\u0323\u0307"

// deepFolds is the number of fold groups that are also placed below containers.
const deepFolds = 2

// leafEdges returns the edge groups of a leaf kind: all groups (full) or the first three (for
// strings: plus the first deepFolds unicode fold groups).
func leafEdges(k vu.TKind, full bool) [][]vu.Val {
	var out [][]vu.Val
	switch k {
	case vu.TInt:
		for _, g := range intEdgeGroups {
			var vs []vu.Val
			for _, x := range g {
				vs = append(vs, vu.IntV(x))
			}
			out = append(out, vs)
		}
	case vu.TFloat:
		for _, g := range floatEdgeGroups {
			var vs []vu.Val
			for _, x := range g {
				vs = append(vs, vu.FloatV(x))
			}
			out = append(out, vs)
		}
	case vu.TStr:
		for _, g := range strEdgeGroups {
			var vs []vu.Val
			for _, x := range g {
				vs = append(vs, vu.StrV(x))
			}
			out = append(out, vs)
		}
	case vu.TRange:
		// the bounds of a range are ints: the same collisions, per bound
		out = [][]vu.Val{
			{vu.RangeV(0, 1<<53, false), vu.RangeV(0, 1<<53+1, false)},
			{vu.RangeV(-(1<<53)-1, 7, false), vu.RangeV(-(1 << 53), 7, false)},
			{vu.RangeV(math.MaxInt64-1, math.MaxInt64, true), vu.RangeV(math.MaxInt64, math.MaxInt64, true)},
		}
	case vu.TAnyObj:
		// untyped content: the same int / float collisions below a key
		out = [][]vu.Val{
			{vu.AnyObjV(kv("a", vu.IntV(1<<53))), vu.AnyObjV(kv("a", vu.IntV(1<<53+1)))},
			{vu.AnyObjV(kv("a", vu.ListV(vu.IntV(math.MaxInt64-1)))), vu.AnyObjV(kv("a", vu.ListV(vu.IntV(math.MaxInt64))))},
			{vu.AnyObjV(kv("a", vu.FloatV(0.1))), vu.AnyObjV(kv("a", vu.FloatV(0.10000000000000002)))},
			// ... and the string folds
			{vu.AnyObjV(kv("a", vu.StrV(strFoldGroups[0][0]))), vu.AnyObjV(kv("a", vu.StrV(strFoldGroups[0][1])))},
			{vu.AnyObjV(kv("a", vu.ListV(vu.StrV(strFoldGroups[1][0])))), vu.AnyObjV(kv("a", vu.ListV(vu.StrV(strFoldGroups[1][1]))))},
		}
	}
	if !full && len(out) > 3 {
		out = out[:3]
	}
	if k == vu.TStr {
		for i, g := range strFoldGroups {
			if !full && i >= deepFolds {
				break
			}
			var vs []vu.Val
			for _, x := range g {
				vs = append(vs, vu.StrV(x))
			}
			out = append(out, vs)
		}
	}
	return out
}

// edgeGroups returns groups of values of type t in which ONE leaf position carries the edge values
// of its kind (everything else is the same typed value, so the members of a group differ in that
// leaf only): per leaf kind the first position of that kind in the first typed value that has one
// (every group at the root of a leaf type, the first three below a container), and, when the value
// has several positions of the kind, the first group again at the last one.
func edgeGroups(t vu.Type, width int) [][]vu.Val {
	typed := vu.Typed(t, width)
	var out [][]vu.Val
	seen := map[string]bool{}
	addGroup := func(v vu.Val, p vu.Path, g []vu.Val) {
		var vs []vu.Val
		for _, e := range g {
			x := replaceAt(v, p, e)
			if !vu.HasType(x, t) {
				continue
			}
			if k := x.String(); !seen[k] {
				seen[k] = true
				vs = append(vs, x)
			}
		}
		if len(vs) > 0 {
			out = append(out, vs)
		}
	}
	for _, kind := range []vu.TKind{vu.TInt, vu.TFloat, vu.TStr, vu.TRange, vu.TAnyObj} {
		for _, v := range typed {
			var ps []vu.TypedPos
			for _, tp := range vu.TypedPositions(v, t) {
				if tp.T.K == kind {
					ps = append(ps, tp)
				}
			}
			if len(ps) == 0 {
				continue
			}
			first, last := ps[0], ps[len(ps)-1]
			for _, g := range leafEdges(kind, len(first.Path) == 0) {
				addGroup(v, first.Path, g)
			}
			if len(ps) > 1 {
				addGroup(v, last.Path, leafEdges(kind, false)[0])
			}
			break
		}
	}
	return out
}

// edgeValues is edgeGroups flattened.
func edgeValues(t vu.Type, width int) []vu.Val {
	var out []vu.Val
	for _, g := range edgeGroups(t, width) {
		out = append(out, g...)
	}
	return out
}

// edgeWindows packs the edge groups of a type, in order, into windows of at most keep values (a
// group is never split); one forms program is generated per window.
func edgeWindows(t vu.Type, width, keep int) [][]vu.Val {
	var out [][]vu.Val
	var cur []vu.Val
	for _, g := range edgeGroups(t, width) {
		if len(cur) > 0 && len(cur)+len(g) > keep {
			out = append(out, cur)
			cur = nil
		}
		cur = append(cur, g...)
	}
	if len(cur) > 0 {
		out = append(out, cur)
	}
	return out
}

// formsKeep is the number of slots of a forms program that are reserved for edge values.
func formsKeep(max int) int {
	if max-4 < 4 {
		return 4
	}
	return max - 4
}

// ---------------------------------------------------------------------------------------------
// Route prog-forms: every way a program can ask "are these two values equal?"
// ---------------------------------------------------------------------------------------------
//
// One program per type binds K values of the type to variables and prints, for the pairs among
// them, the answer of every construct of the language that is defined by equality of values:
//
//	eq   a == b              (all ordered pairs)      ne   a != b     (i <= k)
//	fn   same(a, b)          the operands are parameters       (this and the following: k = i, i+1, i+2)
//	if   if a == b {1} else {0}   the comparison is a branch condition
//	li   [a] == [b]          op   (?a) == (?b)      ob   new { w: a } == new { w: b }
//	                         equality of containers must be congruent with equality of the content
//	in   [b].contains(a)     list membership is defined by equality
//	ma   match a { <lit 0> => 0, <lit 1> => 1, ..., _ => -1 }   (values that can be written as arm literals)
//
// Every answer is judged against StructEq on both backends.

type formKind struct {
	tag     string
	pairs   func(i, k int) bool // which pairs (vals[i], vals[k]) the form is asked for
	expr    func(a, b string) string
	show    string // how the form is named in the `why`
	negated bool
}

// The plain `==` is asked for all ordered pairs (symmetry), `!=` for i <= k, every other form for a
// value with itself and with its two successors: the members of an edge group are neighbours in the
// value list, so the closest distinct values meet in every form.
func allPairs(i, k int) bool   { return true }
func upperPairs(i, k int) bool { return i <= k }
func nearPairs(i, k int) bool  { return i <= k && k <= i+2 }

var formKinds = []formKind{
	{"eq", allPairs, func(a, b string) string { return a + " == " + b }, "a == b", false},
	{"ne", upperPairs, func(a, b string) string { return a + " != " + b }, "a != b", true},
	{"fn", nearPairs, func(a, b string) string { return "same(" + a + ", " + b + ")" }, "same(a, b) with fn same(x: T, y: T) -> bool { x == y }", false},
	{"nf", nearPairs, func(a, b string) string { return "differ(" + a + ", " + b + ")" }, "differ(a, b) with fn differ(x: T, y: T) -> bool { x != y }", true},
	{"if", nearPairs, func(a, b string) string { return "if " + a + " == " + b + " { 1 } else { 0 }" }, "if a == b { 1 } else { 0 }", false},
	{"li", nearPairs, func(a, b string) string { return "[" + a + "] == [" + b + "]" }, "[a] == [b]", false},
	{"op", nearPairs, func(a, b string) string { return "(?" + a + ") == (?" + b + ")" }, "(?a) == (?b)", false},
	{"ob", nearPairs, func(a, b string) string { return "new { w: " + a + " } == new { w: " + b + " }" }, "new { w: a } == new { w: b }", false},
	{"in", nearPairs, func(a, b string) string { return "[" + b + "].contains(" + a + ")" }, "[b].contains(a)", false},
}

// matchLiteral renders v as a literal of a `match` arm: arms take a bare literal (number, bool,
// string, null, none, list, object) or ONE prefix operator (- ?) applied to a bare literal; no
// parentheses, no casts at the top.
func matchLiteral(v vu.Val, t vu.Type) (string, bool) {
	if v.K != vu.VNone && v.HasVKind(vu.VNone) {
		return "", false // a `none` below the root has no type of its own in an arm literal
	}
	bare := func(x vu.Val, xt vu.Type) (string, bool) {
		s, ok := vu.Literal(x, xt)
		if !ok || strings.HasPrefix(s, "(") {
			return "", false
		}
		return s, true
	}
	switch v.K {
	case vu.VInt:
		if v.I == math.MinInt64 {
			return "", false
		}
		if v.I < 0 {
			return fmt.Sprintf("-%d", -v.I), true
		}
		return bare(v, t)
	case vu.VFloat:
		s, ok := vu.Literal(v, t)
		if !ok {
			return "", false
		}
		if strings.HasPrefix(s, "(-") {
			return strings.TrimSuffix(strings.TrimPrefix(s, "("), ")"), true
		}
		return s, true
	case vu.VBool, vu.VStr, vu.VNull, vu.VNone, vu.VList, vu.VObj:
		return bare(v, t)
	case vu.VSome:
		in, ok := bare(*v.Inner, *t.Elem)
		if !ok {
			return "", false
		}
		return "?" + in, true
	}
	return "", false
}

// formPlan says which answers a forms program prints, in order: one output line per entry.
type formLine struct {
	form formKind
	i    int   // row value (the control value for ma)
	ks   []int // column values; for ma: the arm values in arm order
}

// formsOpts narrows a forms program: forms left out by tag, values whose match-arm literal is left out.
type formsOpts struct {
	noForm map[string]bool
	noArm  map[int]bool
}

// FormsProgram builds the forms program over vals (all writable as literals of t). allowed(i, k)
// says whether vals[i] may meet vals[k] in a comparison at all.
func FormsProgram(t vu.Type, vals []vu.Val, annotate bool, allowed func(i, k int) bool, o formsOpts) (string, []formLine) {
	var sb strings.Builder
	var plan []formLine
	ty := t.Src()
	fmt.Fprintf(&sb, "fn same(x: %s, y: %s) -> bool {\n    x == y\n}\n\nfn differ(x: %s, y: %s) -> bool {\n    x != y\n}\n\nfn main() {\n", ty, ty, ty, ty)
	for i, v := range vals {
		l, _ := vu.Literal(v, t)
		if annotate {
			fmt.Fprintf(&sb, "    let v%d: %s = %s;\n", i, ty, l)
		} else {
			fmt.Fprintf(&sb, "    let v%d = %s;\n", i, l)
		}
	}
	name := func(i int) string { return fmt.Sprintf("v%d", i) }
	for _, f := range formKinds {
		if o.noForm[f.tag] {
			continue
		}
		for i := range vals {
			var ks []int
			var parts []string
			for k := range vals {
				if !f.pairs(i, k) || !allowed(i, k) || !allowed(k, i) {
					continue
				}
				ks = append(ks, k)
				parts = append(parts, f.expr(name(i), name(k)))
			}
			if len(ks) == 0 {
				continue
			}
			fmt.Fprintf(&sb, "    println(\"%s %d\", %s);\n", f.tag, i, strings.Join(parts, ", "))
			plan = append(plan, formLine{form: f, i: i, ks: ks})
		}
	}
	// match: the arms are the values that can be written as arm literals
	lits := make([]string, len(vals))
	for k, v := range vals {
		if s, ok := matchLiteral(v, t); ok && !o.noForm["ma"] && !o.noArm[k] {
			lits[k] = s
		}
	}
	for i := range vals {
		var ks []int
		var arms []string
		for k := range vals {
			if lits[k] == "" || !allowed(i, k) || !allowed(k, i) {
				continue
			}
			arms = append(arms, fmt.Sprintf("%s => %d", lits[k], len(ks)))
			ks = append(ks, k)
		}
		if len(ks) == 0 {
			continue
		}
		fmt.Fprintf(&sb, "    println(\"ma %d\", match %s { %s, _ => -1 });\n", i, name(i), strings.Join(arms, ", "))
		plan = append(plan, formLine{form: formKind{tag: "ma", show: "match a { ..., <literal of b> => k, ..., _ => -1 }"}, i: i, ks: ks})
	}
	sb.WriteString("}\n")
	return sb.String(), plan
}

// formsValues selects the values of a forms program: the first two typed values, the edge window
// of the case (whole groups), then the pool in an even stride, at most max values, all writable and free of avoided constructs.
func (j *judge) formsValues() []vu.Val {
	t := j.p.T
	ok := func(v vu.Val) bool {
		if _, w := vu.Literal(v, t); !w {
			return false
		}
		return !hasAny(progConstructs(v, t), j.p.Avoid)
	}
	if j.p.Vals != nil {
		var out []vu.Val
		for _, v := range j.p.Vals {
			if ok(v) {
				out = append(out, v)
			}
		}
		return out
	}
	max := j.p.Max
	var out []vu.Val
	seen := map[string]bool{}
	add := func(v vu.Val) {
		if len(out) < max && ok(v) && !seen[v.String()] {
			seen[v.String()] = true
			out = append(out, v)
		}
	}
	base := basePool(j.p)
	// always: the first typed values (empty container / none / the plain value)
	for i := 0; i < 2 && i < len(base); i++ {
		add(base[i])
	}
	// the edge window of this case (whole groups)
	if ws := edgeWindows(t, j.p.Width, formsKeep(max)); j.p.Part < len(ws) {
		for _, e := range ws[j.p.Part] {
			add(e)
		}
	}
	rest := base[min(2, len(base)):]
	if want := max - len(out); want > 0 && len(rest) > 0 {
		if want > len(rest) {
			want = len(rest)
		}
		for i := 0; i < want; i++ {
			add(rest[i*len(rest)/want])
		}
	}
	return out
}

func (j *judge) progForms() {
	t := j.p.T
	vals := j.formsValues()
	if len(vals) == 0 {
		return
	}
	annotate := !t.HasKind(vu.TAnyObj) || t.K == vu.TOpt
	opts := formsOpts{noForm: map[string]bool{}, noArm: map[int]bool{}}
	build := func(vs []vu.Val, o formsOpts) (string, []formLine) {
		return FormsProgram(t, vs, annotate, func(i, k int) bool {
			return len(j.p.Avoid) == 0 || !hasAny(pairConstructs(vs[i], vs[k]), j.p.Avoid)
		}, o)
	}
	accepted := func(text string) bool {
		return drive.Analyze(drive.Sources{"main": text}, "main", true).Errors == 0
	}
	text, plan := build(vals, opts)
	vm, tree, aerr := runBoth(text)
	if aerr != "" {
		// Not everything can be written for every type. Narrow the program down by analysing its
		// parts: (1) values that are not accepted as a plain binding (a nested `none` / empty literal
		// the analyzer cannot type), (2) forms that are not offered for the type (a `null` cannot be an
		// argument), (3) arm literals that cannot be typed on their own.
		all := map[string]bool{"ma": true}
		for _, f := range formKinds {
			all[f.tag] = true
		}
		var keep []vu.Val
		for _, v := range vals {
			if one, _ := build([]vu.Val{v}, formsOpts{noForm: all}); accepted(one) {
				keep = append(keep, v)
			} else {
				j.cov("unwritable")
			}
		}
		if len(keep) == 0 {
			return
		}
		vals = keep
		only := func(tag string) map[string]bool {
			m := map[string]bool{}
			for k := range all {
				m[k] = k != tag
			}
			return m
		}
		for _, f := range formKinds {
			if one, _ := build(vals[:1], formsOpts{noForm: only(f.tag)}); !accepted(one) {
				opts.noForm[f.tag] = true
				j.cov("form-not-offered:" + f.tag)
			}
		}
		for k := range vals {
			if _, ok := matchLiteral(vals[k], t); !ok {
				continue
			}
			no := map[int]bool{}
			for k2 := range vals {
				no[k2] = k2 != k
			}
			if one, _ := build(vals, formsOpts{noForm: only("ma"), noArm: no}); !accepted(one) {
				opts.noArm[k] = true
				j.cov("arm-unwritable")
			}
		}
		text, plan = build(vals, opts)
		vm, tree, aerr = runBoth(text)
		if aerr != "" {
			j.fail("both", "harness", "analyze", "the generated program was not accepted although each of its parts is accepted on its own: %s\n%s", aerr, clip(text, 1500))
			return
		}
	}
	for _, v := range vals {
		j.hashParts = append(j.hashParts, v.String())
	}
	okBoth := true
	for _, be := range []struct {
		name string
		r    runOut
	}{{"vm", vm}, {"tree", tree}} {
		if be.r.oc.Class != "ok" {
			j.fail(be.name, "prog-died", be.r.oc.Class+"/"+be.r.oc.Kind+":"+normMsg(be.r.oc.Message), "the program died: %s\n%s", be.r.oc, clip(text, 1500))
			okBoth = false
			continue
		}
		lines := strings.Split(strings.TrimSuffix(be.r.out, "\n"), "\n")
		if len(lines) != len(plan) {
			j.fail(be.name, "bad-output", "lines", "the program printed %d lines, %d expected: %q\n%s", len(lines), len(plan), clip(be.r.out, 300), clip(text, 1500))
			okBoth = false
			continue
		}
		failed := map[string]bool{}
		for n, pl := range plan {
			got := strings.Fields(lines[n])
			tag := pl.form.tag
			if len(got) < 2 || got[0] != tag || got[1] != fmt.Sprint(pl.i) {
				j.fail(be.name, "bad-output", tag, "line %d is %q, expected the answers of form %s for value %d", n, clip(lines[n], 200), tag, pl.i)
				okBoth = false
				break
			}
			got = got[2:]
			a := vals[pl.i]
			if be.name == "vm" {
				j.cover["prog-forms:form:"+tag] += len(pl.ks)
			}
			if tag == "ma" {
				j.evals++
				want := -1
				for n2, k := range pl.ks {
					if structEq(a, vals[k]) {
						want = n2
						break
					}
				}
				if len(got) != 1 || got[0] != fmt.Sprint(want) {
					okBoth = false
					if failed[tag] {
						continue
					}
					failed[tag] = true
					hit := "no arm"
					b := a
					var gi int
					if _, e := fmt.Sscan(strings.Join(got, " "), &gi); e == nil && gi >= 0 && gi < len(pl.ks) {
						b = vals[pl.ks[gi]]
						hit = "the arm of " + b.String()
					}
					wantS := "no arm"
					if want >= 0 {
						wantS = "the arm of " + vals[pl.ks[want]].String()
					}
					j.fail(be.name, "form-mismatch", "ma:"+eqAttribution(a, b, true, t),
						"`%s` took %s for a = %s, but by structural content %s matches (arms in order: %s)", pl.form.show, hit, a, wantS, armList(vals, pl.ks))
				}
				continue
			}
			if len(got) != len(pl.ks) {
				j.fail(be.name, "bad-output", tag, "line %d has %d answers, %d expected: %q", n, len(got), len(pl.ks), clip(lines[n], 200))
				okBoth = false
				break
			}
			for n2, k := range pl.ks {
				j.evals++
				b := vals[k]
				same := structEq(a, b)
				want := b2s(same != pl.form.negated)
				if tag == "if" {
					want = map[bool]string{true: "1", false: "0"}[same]
				}
				if got[n2] == want {
					continue
				}
				okBoth = false
				if failed[tag] {
					continue
				}
				failed[tag] = true
				obs := got[n2] == "true" || got[n2] == "1"
				if pl.form.negated {
					obs = !obs
				}
				attr := eqAttribution(a, b, obs, t)
				if attr == t.Shape() {
					attr = eqAttribution(b, a, obs, t)
				}
				j.fail(be.name, "form-mismatch", tag+":"+attr,
					"`%s` printed %s, but the structural contents of a and b are %s: a = %s, b = %s", pl.form.show, got[n2], map[bool]string{true: "equal", false: "different"}[same], a, b)
			}
		}
	}
	if !okBoth {
		return
	}
	j.nontrivial = true
	j.cov("ran-both")
	if j.sample == nil {
		j.sample = map[string]any{"route": "prog-forms", "type": t.Src(), "values": len(vals), "program": clip(text, 600), "vm_output": clip(vm.out, 200)}
	}
}

func armList(vals []vu.Val, ks []int) string {
	parts := make([]string, len(ks))
	for i, k := range ks {
		parts[i] = vals[k].String()
	}
	return clip(strings.Join(parts, " | "), 300)
}
