package exprgen

import (
	"hv/fw"
)

// GenOpts configures the random tree generator.
type GenOpts struct {
	R        *fw.Rng
	MaxDepth int
	// Ranges: allow `a..b` (always printed fully parenthesised: outside the operator table).
	Ranges bool
}

var genIdents = []string{"a", "b", "c", "x", "y", "foo", "bar_1", "_t", "val2", "i"}
var genInts = []int64{0, 1, 2, 3, 7, 10, 42, 255, 1000}
var genFloats = []float64{0.5, 2.25, 10.75}
var genStrs = []string{"s", "a b", "+ ( /* x */ )", "// y", "", "||", "1 + 2", "ünï"}
var genTypes = []string{"int", "float", "bool", "str", "?int", "[int]", "[?str]", "any"}
var genMembers = []string{"len", "to_string", "m", "field_2", "x"}
var genKeys = []string{"k", "key_2", "a b", "x", "1st"}

func (o *GenOpts) atom() *Node {
	r := o.R
	switch k := r.Intn(20); {
	case k < 9:
		return Id(fw.Pick(r, genIdents))
	case k < 14:
		return Int(fw.Pick(r, genInts))
	case k < 15:
		return &Node{K: KFloat, F: fw.Pick(r, genFloats)}
	case k < 17:
		return Bool(r.Bool())
	case k < 18:
		return Str(fw.Pick(r, genStrs))
	case k < 19:
		return &Node{K: KNull}
	default:
		return &Node{K: KNone}
	}
}

// target generates a plain assignment target (identifier, index or member expression).
func (o *GenOpts) target(depth int) *Node {
	r := o.R
	t := Id(fw.Pick(r, genIdents))
	for depth > 1 && r.Intn(3) == 0 {
		if r.Bool() {
			t = Index(t, o.tree(depth-1))
		} else {
			t = Member(t, fw.Pick(r, genMembers))
		}
		depth--
	}
	return t
}

// RandomTree generates an expression tree of depth <= MaxDepth over the whole operator table.
func RandomTree(o *GenOpts) *Node { return o.tree(o.MaxDepth) }

func (o *GenOpts) tree(depth int) *Node {
	r := o.R
	if depth <= 1 || r.Intn(9) == 0 {
		return o.atom()
	}
	d := depth - 1
	switch k := r.Intn(100); {
	case k < 46:
		return Bin(fw.Pick(r, InfixOps), o.tree(d), o.tree(d))
	case k < 52:
		return Bin(fw.Pick(r, AssignOps), o.target(d), o.tree(d))
	case k < 60:
		return Cast(o.tree(d), fw.Pick(r, genTypes))
	case k < 72:
		return Prefix(fw.Pick(r, PrefixOps), o.tree(d))
	case k < 80:
		n := r.Intn(4)
		args := make([]*Node, n)
		for i := range args {
			args[i] = o.tree(d - 1)
		}
		return Call(o.tree(d), args...)
	case k < 86:
		return Index(o.tree(d), o.tree(d))
	case k < 92:
		return Member(o.tree(d), fw.Pick(r, genMembers))
	case k < 95:
		n := r.Intn(4)
		el := make([]*Node, n)
		for i := range el {
			el[i] = o.tree(d - 1)
		}
		return List(el...)
	case k < 98:
		if r.Intn(6) == 0 {
			return &Node{K: KAnyObj}
		}
		n := r.Intn(4)
		ob := &Node{K: KObj}
		for i := 0; i < n; i++ {
			ob.Keys = append(ob.Keys, fw.Pick(r, genKeys))
			ob.Kids = append(ob.Kids, o.tree(d-1))
		}
		return ob
	default:
		if !o.Ranges {
			return Bin(fw.Pick(r, InfixOps), o.tree(d), o.tree(d))
		}
		op := ".."
		if r.Bool() {
			op = "..="
		}
		return &Node{K: KRange, Op: op, Kids: []*Node{o.tree(d), o.tree(d)}}
	}
}

// ---------------------------------------------------------------------------------------------
// Typed (int/bool, literal operands) trees with a defined value
// ---------------------------------------------------------------------------------------------

var intOps = []string{"+", "-", "*", "/", "%", "**", "<<", ">>", "|", "&", "^"}
var cmpOps = []string{"<", ">", "<=", ">="}
var eqOps = []string{"==", "!="}
var boolOps = []string{"&&", "||", "|", "&", "^"}
var valInts = []int64{0, 1, 2, 3, 4, 5, 6, 7, 8, 9, 10, 12, 16, 17, 31, 100, 255}

// TypedTree generates a well-typed int (wantBool=false) or bool tree of depth <= depth whose
// evaluation stays inside the safe arithmetic region, together with its value.
func TypedTree(r *fw.Rng, depth int, wantBool bool) (*Node, Val) {
	for {
		n := typed(r, depth, wantBool)
		if v, err := Eval(n); err == nil {
			return n, v
		}
	}
}

func shuffled(r *fw.Rng, xs []string) []string {
	out := append([]string{}, xs...)
	for i := len(out) - 1; i > 0; i-- {
		j := r.Intn(i + 1)
		out[i], out[j] = out[j], out[i]
	}
	return out
}

func typed(r *fw.Rng, depth int, wantBool bool) *Node {
	if depth <= 1 || r.Intn(8) == 0 {
		if wantBool {
			return Bool(r.Bool())
		}
		return Int(fw.Pick(r, valInts))
	}
	d := depth - 1
	if !wantBool {
		switch k := r.Intn(10); {
		case k == 0:
			return Prefix("-", typed(r, d, false))
		case k == 1:
			return Cast(typed(r, d, false), "int")
		}
		l, rr := typed(r, d, false), typed(r, d, false)
		// pick the first operator (in random order) whose result is defined; "+" always is
		for _, op := range shuffled(r, intOps) {
			n := Bin(op, l, rr)
			if _, err := Eval(n); err == nil {
				return n
			}
			if op == "**" || op == "<<" || op == ">>" {
				// retry once with a small right operand: keeps these operators frequent
				n = Bin(op, l, Int(int64(r.Intn(4))))
				if _, err := Eval(n); err == nil {
					return n
				}
			}
		}
		return Bin("+", l, rr)
	}
	switch k := r.Intn(12); {
	case k == 0:
		return Prefix("!", typed(r, d, true))
	case k == 1:
		return Cast(typed(r, d, true), "bool")
	case k < 5:
		return Bin(fw.Pick(r, cmpOps), typed(r, d, false), typed(r, d, false))
	case k < 7:
		b := r.Bool()
		return Bin(fw.Pick(r, eqOps), typed(r, d, b), typed(r, d, b))
	default:
		return Bin(fw.Pick(r, boolOps), typed(r, d, true), typed(r, d, true))
	}
}
