// Package exprgen is the harness-owned model of homescript expressions for property C07
// (DESIGN.md §2.6, §3 C07): an expression tree type, the operator table *as stated by the property
// text* (not read from lexer.TokenKind.Prec), a printer that emits the minimum parentheses that
// table requires, a reference precedence parser over token sequences, layout variants, a reference
// tokenizer for layout variants of whole programs, a span-insensitive dump of the real parse tree
// and a small evaluator for the int/bool subset.
package exprgen

import (
	"fmt"
	"strings"
)

// Node kinds.
const (
	KInt    = "int"
	KFloat  = "float"
	KBool   = "bool"
	KStr    = "str"
	KIdent  = "id"
	KNull   = "null"
	KNone   = "none"
	KBin    = "bin"    // Op = operator, Kids = [lhs, rhs]
	KAssign = "asg"    // Op = assignment operator, Kids = [lhs, rhs]
	KCast   = "cast"   // Op = canonical type text, Kids = [base]
	KPrefix = "pre"    // Op = - ! ?, Kids = [operand]
	KCall   = "call"   // Kids = [callee, args...]
	KIndex  = "idx"    // Kids = [base, index]
	KMember = "mem"    // Op = member name, Kids = [base]
	KList   = "list"   // Kids = elements
	KObj    = "obj"    // Keys = field names, Kids = field values
	KAnyObj = "anyobj" // new { ? }
	KRange  = "range"  // Op = ".." or "..=", Kids = [start, end]  (outside the operator table)
	KOpaque = "opaque" // Op = span-insensitive dump of a construct the model does not describe
)

// Node is one node of an expression tree.
type Node struct {
	K    string   `json:"k"`
	Op   string   `json:"o,omitempty"`
	I    int64    `json:"i,omitempty"`
	F    float64  `json:"f,omitempty"`
	B    bool     `json:"b,omitempty"`
	Kids []*Node  `json:"c,omitempty"`
	Keys []string `json:"keys,omitempty"`
}

// Constructors.
func Int(v int64) *Node    { return &Node{K: KInt, I: v} }
func Bool(b bool) *Node    { return &Node{K: KBool, B: b} }
func Id(name string) *Node { return &Node{K: KIdent, Op: name} }
func Str(s string) *Node   { return &Node{K: KStr, Op: s} }
func Bin(op string, l, r *Node) *Node {
	if IsAssignOp(op) {
		return &Node{K: KAssign, Op: op, Kids: []*Node{l, r}}
	}
	return &Node{K: KBin, Op: op, Kids: []*Node{l, r}}
}
func Cast(b *Node, typ string) *Node    { return &Node{K: KCast, Op: typ, Kids: []*Node{b}} }
func Prefix(op string, b *Node) *Node   { return &Node{K: KPrefix, Op: op, Kids: []*Node{b}} }
func Call(f *Node, args ...*Node) *Node { return &Node{K: KCall, Kids: append([]*Node{f}, args...)} }
func Index(b, i *Node) *Node            { return &Node{K: KIndex, Kids: []*Node{b, i}} }
func Member(b *Node, name string) *Node { return &Node{K: KMember, Op: name, Kids: []*Node{b}} }
func List(el ...*Node) *Node            { return &Node{K: KList, Kids: el} }

// ---------------------------------------------------------------------------------------------
// The operator table of property C07 (lowest binding first):
//
//	assignment < || < && < | < ^ < & < equality < comparison < shift < additive
//	< multiplicative < as < ** (right-associative); every other binary operator is
//	left-associative; prefix operators bind tighter than all of these but looser than
//	call, index and member access.
// ---------------------------------------------------------------------------------------------

const (
	LevelOutside = 0 // range: not in the table, always parenthesised when nested
	LevelAssign  = 1
	LevelAs      = 12
	LevelPow     = 13
	LevelPrefix  = 14
	LevelPostfix = 15
	LevelAtom    = 16
)

// InfixOps are the 19 infix operators in table order.
var InfixOps = []string{"||", "&&", "|", "^", "&", "==", "!=", "<", ">", "<=", ">=", "<<", ">>", "+", "-", "*", "/", "%", "**"}

// AssignOps are the 12 assignment operators.
var AssignOps = []string{"=", "+=", "-=", "*=", "/=", "%=", "**=", "<<=", ">>=", "|=", "&=", "^="}

// PrefixOps are the prefix operators.
var PrefixOps = []string{"-", "!", "?"}

// AllBinaryLike = infix operators + `as` + assignment operators (32 entries).
var AllBinaryLike = func() []string {
	out := append([]string{}, InfixOps...)
	out = append(out, "as")
	return append(out, AssignOps...)
}()

var infixLevel = map[string]int{
	"||": 2, "&&": 3, "|": 4, "^": 5, "&": 6,
	"==": 7, "!=": 7,
	"<": 8, ">": 8, "<=": 8, ">=": 8,
	"<<": 9, ">>": 9,
	"+": 10, "-": 10,
	"*": 11, "/": 11, "%": 11,
	"as": LevelAs,
	"**": LevelPow,
}

// IsAssignOp reports whether op is an assignment operator.
func IsAssignOp(op string) bool {
	for _, a := range AssignOps {
		if a == op {
			return true
		}
	}
	return false
}

// OpLevel returns the table level of a binary-like operator (0 if unknown).
func OpLevel(op string) int {
	if IsAssignOp(op) {
		return LevelAssign
	}
	return infixLevel[op]
}

// RightAssoc: only `**`.
func RightAssoc(op string) bool { return op == "**" }

// Level returns the binding level of the node's top construct.
func (n *Node) Level() int {
	switch n.K {
	case KAssign:
		return LevelAssign
	case KBin:
		return infixLevel[n.Op]
	case KCast:
		return LevelAs
	case KPrefix:
		return LevelPrefix
	case KCall, KIndex, KMember:
		return LevelPostfix
	case KRange:
		return LevelOutside
	default:
		return LevelAtom
	}
}

// IsAtom reports whether the node is a leaf-like single token group (literal, identifier) or a
// bracketed literal (list, object).
func (n *Node) IsAtom() bool { return n.Level() == LevelAtom }

// Equal compares two trees structurally.
func Equal(a, b *Node) bool {
	if a == nil || b == nil {
		return a == b
	}
	if a.K != b.K || a.Op != b.Op || a.I != b.I || a.F != b.F || a.B != b.B || len(a.Kids) != len(b.Kids) || len(a.Keys) != len(b.Keys) {
		return false
	}
	for i := range a.Keys {
		if a.Keys[i] != b.Keys[i] {
			return false
		}
	}
	for i := range a.Kids {
		if !Equal(a.Kids[i], b.Kids[i]) {
			return false
		}
	}
	return true
}

// Sexp renders the tree unambiguously (fully bracketed), for messages and evidence.
func (n *Node) Sexp() string {
	if n == nil {
		return "<nil>"
	}
	kids := func() string {
		parts := make([]string, len(n.Kids))
		for i, k := range n.Kids {
			parts[i] = k.Sexp()
		}
		return strings.Join(parts, " ")
	}
	switch n.K {
	case KInt:
		return fmt.Sprint(n.I)
	case KFloat:
		return fmt.Sprintf("%gf", n.F)
	case KBool:
		return fmt.Sprint(n.B)
	case KStr:
		return fmt.Sprintf("%q", n.Op)
	case KIdent:
		return n.Op
	case KNull, KNone:
		return n.K
	case KBin, KAssign, KPrefix:
		return "(" + n.Op + " " + kids() + ")"
	case KCast:
		return "(as:" + n.Op + " " + kids() + ")"
	case KCall:
		return "(call " + kids() + ")"
	case KIndex:
		return "(index " + kids() + ")"
	case KMember:
		return "(." + n.Op + " " + kids() + ")"
	case KList:
		return "(list " + kids() + ")"
	case KObj:
		parts := make([]string, len(n.Kids))
		for i, k := range n.Kids {
			parts[i] = fmt.Sprintf("%q:%s", n.Keys[i], k.Sexp())
		}
		return "(obj " + strings.Join(parts, " ") + ")"
	case KAnyObj:
		return "(anyobj)"
	case KRange:
		return "(" + n.Op + " " + kids() + ")"
	case KOpaque:
		return "(opaque " + n.Op + ")"
	}
	return "(?" + n.K + ")"
}

// CountOps counts the table constructs (binary, assignment, cast, prefix, postfix) in the tree.
func (n *Node) CountOps() int {
	c := 0
	switch n.K {
	case KBin, KAssign, KCast, KPrefix, KCall, KIndex, KMember:
		c = 1
	}
	for _, k := range n.Kids {
		c += k.CountOps()
	}
	return c
}

// Depth of the tree (a leaf has depth 1).
func (n *Node) Depth() int {
	d := 0
	for _, k := range n.Kids {
		if kd := k.Depth(); kd > d {
			d = kd
		}
	}
	return d + 1
}

// Walk visits all nodes (pre-order).
func (n *Node) Walk(f func(*Node)) {
	f(n)
	for _, k := range n.Kids {
		k.Walk(f)
	}
}

// PlainAssignTargets reports whether every assignment in the tree has an identifier, index or
// member expression as its target. (The parser additionally rejects other targets with "Invalid
// left-hand side of assignment"; the grammar allows any expression. The oracle therefore accepts
// either the intended tree or that rejection for non-plain targets.)
func (n *Node) PlainAssignTargets() bool {
	ok := true
	n.Walk(func(m *Node) {
		if m.K == KAssign {
			switch m.Kids[0].K {
			case KIdent, KIndex, KMember:
			default:
				ok = false
			}
		}
	})
	return ok
}
