package exprgen

import (
	"fmt"
	"reflect"
	"sort"
	"strconv"
	"strings"

	"github.com/smarthome-go/homescript/v3/homescript/errors"
	"github.com/smarthome-go/homescript/v3/homescript/parser/ast"
)

// FromAst converts a parsed expression into the harness tree. GroupedExpression nodes are
// stripped (counted in *groups when non-nil); spans are ignored. Constructs the model does not
// describe (blocks, if, match, try, function literals) become opaque nodes carrying their
// span-insensitive dump.
func FromAst(e ast.Expression, groups *int) *Node {
	switch x := e.(type) {
	case ast.IntLiteralExpression:
		return Int(x.Value)
	case ast.FloatLiteralExpression:
		return &Node{K: KFloat, F: x.Value}
	case ast.BoolLiteralExpression:
		return Bool(x.Value)
	case ast.StringLiteralExpression:
		return Str(x.Value)
	case ast.IdentExpression:
		name := x.Ident.Ident()
		if x.IsSingleton {
			name = "$" + strings.TrimPrefix(name, "$")
		}
		return Id(name)
	case ast.NullLiteralExpression:
		return &Node{K: KNull}
	case ast.NoneLiteralExpression:
		return &Node{K: KNone}
	case ast.RangeLiteralExpression:
		op := ".."
		if x.EndIsInclusive {
			op = "..="
		}
		return &Node{K: KRange, Op: op, Kids: []*Node{FromAst(x.Start, groups), FromAst(x.End, groups)}}
	case ast.ListLiteralExpression:
		n := &Node{K: KList}
		for _, v := range x.Values {
			n.Kids = append(n.Kids, FromAst(v, groups))
		}
		return n
	case ast.AnyObjectLiteralExpression:
		return &Node{K: KAnyObj}
	case ast.ObjectLiteralExpression:
		n := &Node{K: KObj}
		for _, f := range x.Fields {
			n.Keys = append(n.Keys, f.Key.Ident())
			n.Kids = append(n.Kids, FromAst(f.Expression, groups))
		}
		return n
	case ast.GroupedExpression:
		if groups != nil {
			*groups++
		}
		return FromAst(x.Inner, groups)
	case ast.PrefixExpression:
		return Prefix(x.Operator.String(), FromAst(x.Base, groups))
	case ast.InfixExpression:
		return &Node{K: KBin, Op: x.Operator.String(), Kids: []*Node{FromAst(x.Lhs, groups), FromAst(x.Rhs, groups)}}
	case ast.AssignExpression:
		return &Node{K: KAssign, Op: x.AssignOperator.String(), Kids: []*Node{FromAst(x.Lhs, groups), FromAst(x.Rhs, groups)}}
	case ast.CallExpression:
		n := &Node{K: KCall, Kids: []*Node{FromAst(x.Base, groups)}}
		if x.IsSpawn {
			n.Op = "spawn"
		}
		for _, a := range x.Arguments.List {
			n.Kids = append(n.Kids, FromAst(a, groups))
		}
		return n
	case ast.IndexExpression:
		return Index(FromAst(x.Base, groups), FromAst(x.Index, groups))
	case ast.MemberExpression:
		name := x.Member.Ident()
		if x.Operator != ast.DotMemberOperator {
			name = x.Operator.String() + name
		}
		return Member(FromAst(x.Base, groups), name)
	case ast.CastExpression:
		return Cast(FromAst(x.Base, groups), TypeText(x.AsType))
	case nil:
		return &Node{K: KOpaque, Op: "<nil>"}
	default:
		return &Node{K: KOpaque, Op: Dump(e)}
	}
}

// TypeText renders a parsed type canonically ("?[int]"); unknown forms fall back to the dump.
func TypeText(t ast.HmsType) string {
	switch x := t.(type) {
	case ast.NameReferenceType:
		return x.Ident.Ident()
	case ast.SingletonReferenceType:
		return "$" + strings.TrimPrefix(x.Ident.Ident(), "$")
	case ast.OptionType:
		return "?" + TypeText(x.Inner)
	case ast.ListType:
		return "[" + TypeText(x.Inner) + "]"
	}
	return Dump(t)
}

var spanType = reflect.TypeOf(errors.Span{})
var locType = reflect.TypeOf(errors.Location{})
var groupedType = reflect.TypeOf(ast.GroupedExpression{})

// Dump renders any parse-tree value (program, statement, expression, type) reflectively and
// span-insensitively: fields of type errors.Span / errors.Location are skipped, GroupedExpression
// is replaced by its inner expression, everything else (including unexported identifier texts) is
// rendered. ast's String() methods are not used: they are lossy.
func Dump(v any) string {
	var sb strings.Builder
	dumpValue(&sb, reflect.ValueOf(v))
	return sb.String()
}

func dumpValue(sb *strings.Builder, v reflect.Value) {
	if !v.IsValid() {
		sb.WriteString("nil")
		return
	}
	t := v.Type()
	if t == spanType || t == locType {
		return
	}
	switch v.Kind() {
	case reflect.Interface, reflect.Ptr:
		if v.IsNil() {
			sb.WriteString("nil")
			return
		}
		dumpValue(sb, v.Elem())
	case reflect.Struct:
		if t == groupedType {
			dumpValue(sb, v.FieldByName("Inner"))
			return
		}
		sb.WriteString(t.Name())
		sb.WriteByte('{')
		first := true
		for i := 0; i < v.NumField(); i++ {
			ft := t.Field(i).Type
			if ft == spanType || ft == locType {
				continue
			}
			if !first {
				sb.WriteByte(' ')
			}
			first = false
			sb.WriteString(t.Field(i).Name)
			sb.WriteByte(':')
			dumpValue(sb, v.Field(i))
		}
		sb.WriteByte('}')
	case reflect.Slice, reflect.Array:
		if v.Kind() == reflect.Slice && v.IsNil() {
			sb.WriteString("[]")
			return
		}
		sb.WriteByte('[')
		for i := 0; i < v.Len(); i++ {
			if i > 0 {
				sb.WriteByte(' ')
			}
			dumpValue(sb, v.Index(i))
		}
		sb.WriteByte(']')
	case reflect.Map:
		keys := make([]string, 0, v.Len())
		vals := map[string]reflect.Value{}
		for _, k := range v.MapKeys() {
			ks := fmt.Sprint(k)
			keys = append(keys, ks)
			vals[ks] = v.MapIndex(k)
		}
		sort.Strings(keys)
		sb.WriteString("map[")
		for i, k := range keys {
			if i > 0 {
				sb.WriteByte(' ')
			}
			sb.WriteString(k)
			sb.WriteByte(':')
			dumpValue(sb, vals[k])
		}
		sb.WriteByte(']')
	case reflect.String:
		sb.WriteString(strconv.Quote(v.String()))
	case reflect.Bool:
		sb.WriteString(strconv.FormatBool(v.Bool()))
	case reflect.Int, reflect.Int8, reflect.Int16, reflect.Int32, reflect.Int64:
		sb.WriteString(strconv.FormatInt(v.Int(), 10))
	case reflect.Uint, reflect.Uint8, reflect.Uint16, reflect.Uint32, reflect.Uint64:
		sb.WriteString(strconv.FormatUint(v.Uint(), 10))
	case reflect.Float32, reflect.Float64:
		sb.WriteString(strconv.FormatFloat(v.Float(), 'g', -1, 64))
	default:
		sb.WriteString("<" + v.Kind().String() + ">")
	}
}
