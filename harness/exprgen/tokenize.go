package exprgen

import (
	"strings"
	"unicode/utf8"
)

// Tokenize is a reference tokenizer written from grammar.ebnf, used to re-lay-out whole programs:
// it returns the token texts (comments and whitespace dropped). ok=false when the text contains
// something the layout engine does not want to handle (unknown character, unterminated string or
// comment, digit separators — a region with a known lexer defect, DESIGN Appendix A.4).
// `$name` and `@name` are returned as one token (the grammar lists singletonIdent under tokens).
func Tokenize(src string) (toks []string, ok bool) {
	i := 0
	for i < len(src) {
		c := src[i]
		switch {
		case c == ' ' || c == '\n' || c == '\r' || c == '\t':
			i++
		case strings.HasPrefix(src[i:], "//"):
			j := strings.IndexByte(src[i:], '\n')
			if j < 0 {
				i = len(src)
			} else {
				i += j + 1
			}
		case strings.HasPrefix(src[i:], "/*"):
			j := strings.Index(src[i+2:], "*/")
			if j < 0 {
				return nil, false
			}
			i += 2 + j + 2
		case c == '"' || c == '\'':
			j := i + 1
			for j < len(src) && src[j] != c {
				if src[j] == '\\' {
					j++
				}
				j++
			}
			if j >= len(src) {
				return nil, false
			}
			toks = append(toks, src[i:j+1])
			i = j + 1
		case c >= '0' && c <= '9':
			j := i
			for j < len(src) && ((src[j] >= '0' && src[j] <= '9') || src[j] == '_') {
				j++
			}
			if j+1 < len(src) && src[j] == '.' && src[j+1] >= '0' && src[j+1] <= '9' {
				j++
				for j < len(src) && ((src[j] >= '0' && src[j] <= '9') || src[j] == '_') {
					j++
				}
			} else if j < len(src) && src[j] == 'f' {
				j++
			}
			t := src[i:j]
			if strings.Contains(t, "_") {
				return nil, false
			}
			// a number directly followed by a letter is outside the grammar
			if j < len(src) && isWordByte(src[j]) {
				return nil, false
			}
			toks = append(toks, t)
			i = j
		case c == '_' || (c >= 'a' && c <= 'z') || (c >= 'A' && c <= 'Z'):
			j := i
			for j < len(src) && (src[j] == '_' || (src[j] >= 'a' && src[j] <= 'z') || (src[j] >= 'A' && src[j] <= 'Z') || (src[j] >= '0' && src[j] <= '9')) {
				j++
			}
			toks = append(toks, src[i:j])
			i = j
		case (c == '$' || c == '@') && i+1 < len(src) && (src[i+1] == '_' || (src[i+1] >= 'a' && src[i+1] <= 'z') || (src[i+1] >= 'A' && src[i+1] <= 'Z')):
			j := i + 1
			for j < len(src) && (src[j] == '_' || (src[j] >= 'a' && src[j] <= 'z') || (src[j] >= 'A' && src[j] <= 'Z') || (src[j] >= '0' && src[j] <= '9')) {
				j++
			}
			toks = append(toks, src[i:j])
			i = j
		default:
			if c >= utf8.RuneSelf {
				return nil, false
			}
			m := munch(src[i:])
			if m == "" || m == "~" {
				return nil, false
			}
			toks = append(toks, m)
			i += len(m)
		}
	}
	return toks, true
}
