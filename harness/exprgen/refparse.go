package exprgen

import (
	"fmt"
	"strconv"
	"strings"
)

// RefParse is the reference parser of the harness: precedence climbing driven by the operator
// table of the property text (node.go), written independently of the implementation. It accepts
// the expression fragment the generators print: literals, identifiers, parentheses, prefix
// operators, call/index/member postfixes, `as <type>`, infix and assignment operators, list and
// object literals. Parentheses leave no node. Trailing commas are accepted and leave no trace.
func RefParse(toks []string) (n *Node, err error) {
	p := &refParser{toks: toks}
	defer func() {
		if r := recover(); r != nil {
			if e, ok := r.(refErr); ok {
				n, err = nil, fmt.Errorf("%s", string(e))
				return
			}
			panic(r)
		}
	}()
	n = p.expr(LevelAssign)
	if p.pos != len(p.toks) {
		p.fail("trailing tokens")
	}
	return n, nil
}

type refErr string

type refParser struct {
	toks []string
	pos  int
}

func (p *refParser) fail(msg string) {
	panic(refErr(fmt.Sprintf("refparse: %s at token %d of %q", msg, p.pos, strings.Join(p.toks, " "))))
}

func (p *refParser) peek() string {
	if p.pos < len(p.toks) {
		return p.toks[p.pos]
	}
	return ""
}

func (p *refParser) next() string {
	t := p.peek()
	if t == "" {
		p.fail("unexpected end")
	}
	p.pos++
	return t
}

func (p *refParser) expect(t string) {
	if p.peek() != t {
		p.fail("expected " + t)
	}
	p.pos++
}

// expr parses an expression whose operators all have level >= min.
func (p *refParser) expr(min int) *Node {
	lhs := p.unary()
	for {
		op := p.peek()
		lv := OpLevel(op)
		if lv == 0 || lv < min {
			return lhs
		}
		p.pos++
		if op == "as" {
			lhs = Cast(lhs, p.typ())
			continue
		}
		nextMin := lv + 1
		if RightAssoc(op) {
			nextMin = lv
		}
		rhs := p.expr(nextMin)
		lhs = Bin(op, lhs, rhs)
	}
}

func isPrefixOp(t string) bool { return t == "-" || t == "!" || t == "?" }

// unary: prefix operators bind tighter than every binary operator, looser than postfix.
func (p *refParser) unary() *Node {
	if isPrefixOp(p.peek()) {
		op := p.next()
		return Prefix(op, p.unary())
	}
	return p.postfix()
}

func (p *refParser) postfix() *Node {
	e := p.atom()
	for {
		switch p.peek() {
		case "(":
			p.pos++
			args := p.list(")")
			e = Call(e, args...)
		case "[":
			p.pos++
			i := p.expr(LevelAssign)
			p.expect("]")
			e = Index(e, i)
		case ".":
			p.pos++
			name := p.next()
			if !identLike(name) {
				p.fail("member name expected")
			}
			e = Member(e, name)
		default:
			return e
		}
	}
}

// list parses comma separated expressions up to the closer; a trailing comma is allowed.
func (p *refParser) list(closer string) []*Node {
	var out []*Node
	for p.peek() != closer {
		out = append(out, p.expr(LevelAssign))
		if p.peek() == "," {
			p.pos++
			continue
		}
		break
	}
	p.expect(closer)
	return out
}

func (p *refParser) typ() string {
	switch t := p.next(); {
	case t == "?":
		return "?" + p.typ()
	case t == "[":
		inner := p.typ()
		p.expect("]")
		return "[" + inner + "]"
	case identLike(t) || t == "null":
		return t
	default:
		p.fail("type expected")
	}
	return ""
}

func (p *refParser) atom() *Node {
	t := p.next()
	switch {
	case t == "(":
		e := p.expr(LevelAssign)
		p.expect(")")
		return e
	case t == "[":
		return List(p.list("]")...)
	case t == "new":
		p.expect("{")
		if p.peek() == "?" {
			p.pos++
			p.expect("}")
			return &Node{K: KAnyObj}
		}
		o := &Node{K: KObj}
		for p.peek() != "}" {
			k := p.next()
			if len(k) >= 2 && (k[0] == '"' || k[0] == '\'') {
				k = k[1 : len(k)-1]
			} else if !identLike(k) {
				p.fail("object key expected")
			}
			p.expect(":")
			o.Keys = append(o.Keys, k)
			o.Kids = append(o.Kids, p.expr(LevelAssign))
			if p.peek() == "," {
				p.pos++
				continue
			}
			break
		}
		p.expect("}")
		return o
	case t == "true" || t == "on":
		return Bool(true)
	case t == "false" || t == "off":
		return Bool(false)
	case t == "null":
		return &Node{K: KNull}
	case t == "none":
		return &Node{K: KNone}
	case t[0] == '"' || t[0] == '\'':
		return Str(t[1 : len(t)-1])
	case t[0] >= '0' && t[0] <= '9':
		if strings.Contains(t, ".") {
			f, err := strconv.ParseFloat(t, 64)
			if err != nil {
				p.fail("bad float")
			}
			return &Node{K: KFloat, F: f}
		}
		v, err := strconv.ParseInt(t, 10, 64)
		if err != nil {
			p.fail("bad int")
		}
		return Int(v)
	case identLike(t):
		return Id(t)
	}
	p.pos--
	p.fail("expression expected")
	return nil
}
