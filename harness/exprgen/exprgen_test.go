package exprgen

import (
	"strings"
	"testing"

	"hv/fw"
)

// The printer (minimal parentheses) and the reference parser are both written from the operator
// table of the property text; they must be inverse to each other.
func TestPrintParseRoundTrip(t *testing.T) {
	r := fw.NewRng(7)
	for i := 0; i < 20000; i++ {
		tree := RandomTree(&GenOpts{R: r, MaxDepth: 2 + i%6})
		toks := Tokens(tree, nil)
		back, err := RefParse(toks)
		if err != nil || !Equal(back, tree) {
			t.Fatalf("round trip failed: %s -> %q -> %s (%v)", tree.Sexp(), strings.Join(toks, " "), back.Sexp(), err)
		}
		// redundant parentheses and trailing commas leave no trace
		po := &PrintOpts{R: r, AtomParens: 30, NodeParens: 30, TrailComma: 50}
		toks2 := Tokens(tree, po)
		back2, err := RefParse(toks2)
		if err != nil || !Equal(back2, tree) {
			t.Fatalf("round trip with redundant tokens failed: %s -> %q -> %s (%v)", tree.Sexp(), strings.Join(toks2, " "), back2.Sexp(), err)
		}
	}
}

// Removing any single pair of parentheses the minimal printer emitted must change the tree (or
// make the text unparsable): the parentheses are really the minimum.
func TestParenthesesAreMinimal(t *testing.T) {
	r := fw.NewRng(11)
	checked := 0
	for i := 0; i < 4000; i++ {
		tree := RandomTree(&GenOpts{R: r, MaxDepth: 2 + i%5})
		toks := Tokens(tree, nil)
		for j, tk := range toks {
			if tk != "(" {
				continue
			}
			// a call's parenthesis follows an operand; a grouping parenthesis follows an operator or starts the text
			if j > 0 {
				p := toks[j-1]
				if p == ")" || p == "]" || p == "}" || identLike(p) || (p[0] >= '0' && p[0] <= '9') || p[0] == '"' || p == "true" || p == "false" || p == "null" || p == "none" {
					continue
				}
			}
			depth, k := 0, j
			for ; k < len(toks); k++ {
				if toks[k] == "(" {
					depth++
				} else if toks[k] == ")" {
					depth--
					if depth == 0 {
						break
					}
				}
			}
			without := append(append(append([]string{}, toks[:j]...), toks[j+1:k]...), toks[k+1:]...)
			back, err := RefParse(without)
			if err == nil && Equal(back, tree) {
				// the one exception: `(x as T) ** y` — the type delimits the cast, so the
				// parentheses the table asks for (`**` binds tighter than `as`) are not needed
				if k+1 < len(toks) && toks[k+1] == "**" {
					continue
				}
				t.Fatalf("parentheses at %d are redundant in %q (tree %s)", j, strings.Join(toks, " "), tree.Sexp())
			}
			checked++
		}
	}
	if checked < 1000 {
		t.Fatalf("only %d parenthesis pairs checked", checked)
	}
}

func TestLayoutKeepsTokens(t *testing.T) {
	r := fw.NewRng(3)
	for i := 0; i < 5000; i++ {
		tree := RandomTree(&GenOpts{R: r, MaxDepth: 2 + i%5, Ranges: true})
		toks := append(append([]string{"fn", "main", "(", ")", "{"}, Tokens(tree, &PrintOpts{R: r, AtomParens: 20, NodeParens: 20, TrailComma: 30, AltQuotes: true})...), ";", "}")
		for style := 0; style < NumStyles; style++ {
			for _, tight := range []bool{false, true} {
				src := Layout(toks, &LayoutOpts{R: r, Style: style, TightOrAnd: tight, Tabs: i%2 == 0})
				back, ok := Tokenize(src)
				if !ok || strings.Join(back, "\x00") != strings.Join(toks, "\x00") {
					t.Fatalf("style %d: %q does not tokenize to %q: %q", style, src, toks, back)
				}
			}
		}
	}
}

func TestEval(t *testing.T) {
	cases := map[string]string{
		"1 + 2 * 3": "7", "2 ** 3 ** 2": "512", "- 2 ** 2": "4", "1 << 2 + 1": "8", "7 / 2": "3", "- 7 / 2": "-3", "7 % - 3": "1", "- 7 % 3": "-1",
		"1 | 2 ^ 3 & 4": "3", "true | false & false": "true", "false & true == false": "false", "1 < 2 == true": "true", "! true == false": "true",
		"9223372036854775807 + 1": "-9223372036854775808", "- 8 >> 1": "-4", "2 ** 3 as int": "8", "true && false || true": "true",
	}
	for src, want := range cases {
		n, err := RefParse(strings.Fields(src))
		if err != nil {
			t.Fatal(err)
		}
		v, err := Eval(n)
		if err != nil || v.String() != want {
			t.Errorf("%s = %v (%v), want %s", src, v, err, want)
		}
	}
	for _, src := range []string{"1 / 0", "1 % 0", "1 << 64", "1 << - 1", "2 ** - 1", "3 ** 40", "100000000 ** 3", "1 + true", "! 1", "- true", "1 && 2"} {
		n, _ := RefParse(strings.Fields(src))
		if _, err := Eval(n); err == nil {
			t.Errorf("%s should be outside the checked subset", src)
		}
	}
}
