package exprgen

import (
	"strconv"
	"strings"

	"hv/fw"
)

// PrintOpts controls the meaning-preserving token-level variations of the printer. With a nil R
// the printer is canonical: exactly the parentheses the operator table requires and nothing else.
type PrintOpts struct {
	R *fw.Rng
	// AtomParens: percent chance to put redundant parentheses around an operand that is a
	// literal / identifier / bracketed literal / postfix expression.
	AtomParens int
	// NodeParens: percent chance to put redundant parentheses around any operand subtree (an
	// operand that already is a single node at its position).
	NodeParens int
	// TrailComma: percent chance of a trailing comma in a non-empty list / argument list / object.
	TrailComma int
	// KeepAssignLHS: never parenthesise the target of an assignment redundantly.
	KeepAssignLHS bool
	// ForceAssignLHS: always parenthesise the target of an assignment redundantly.
	ForceAssignLHS bool
	// AltQuotes: string literals may be spelled with single quotes.
	AltQuotes bool
	// Stats
	Redundant int // redundant parenthesis pairs emitted
	Trailing  int // trailing commas emitted
	Required  int // required parenthesis pairs emitted
	LHSParens int // redundant parentheses put around an assignment target
}

func (o *PrintOpts) chance(pct int) bool {
	if o == nil || o.R == nil || pct <= 0 {
		return false
	}
	return o.R.Intn(100) < pct
}

// position of a child within its parent
const (
	posRoot = iota
	posLeft
	posRight
	posCastBase
	posPrefixOperand
	posPostfixBase
	posDelimited // call argument, list element, index, object value: delimited by brackets/commas
	posRangeSide
)

// needParens decides, from the property's operator table alone, whether child must be
// parenthesised at position pos under parent.
func needParens(parent *Node, child *Node, pos int) bool {
	cl := child.Level()
	switch pos {
	case posRoot, posDelimited:
		return false
	case posLeft:
		pl := parent.Level()
		if cl < pl {
			return true
		}
		return cl == pl && RightAssoc(parent.Op)
	case posRight:
		pl := parent.Level()
		if cl < pl {
			return true
		}
		return cl == pl && !RightAssoc(parent.Op)
	case posCastBase:
		return cl < LevelAs
	case posPrefixOperand:
		return cl < LevelPrefix
	case posPostfixBase:
		return cl < LevelPostfix
	case posRangeSide:
		// `..` is outside the table: make the grouping independent of whatever binding it has
		return cl < LevelPostfix
	}
	return true
}

// Tokens prints the tree as a token sequence with the minimum parentheses the operator table
// requires, plus the redundant tokens selected by o.
func Tokens(n *Node, o *PrintOpts) []string {
	if o == nil {
		o = &PrintOpts{}
	}
	var out []string
	emit(&out, nil, n, posRoot, o)
	return out
}

func identLike(s string) bool {
	if s == "" {
		return false
	}
	for i, r := range s {
		if r == '_' || (r >= 'a' && r <= 'z') || (r >= 'A' && r <= 'Z') || (i > 0 && r >= '0' && r <= '9') {
			continue
		}
		return false
	}
	return !keywords[s]
}

var keywords = map[string]bool{
	"true": true, "on": true, "false": true, "off": true, "null": true, "none": true, "pub": true, "fn": true, "if": true, "else": true,
	"match": true, "for": true, "while": true, "loop": true, "break": true, "continue": true, "return": true, "import": true, "as": true,
	"from": true, "let": true, "in": true, "type": true, "try": true, "catch": true, "new": true, "spawn": true, "event": true,
	"impl": true, "with": true, "templ": true, "trigger": true, "_": true,
}

// TypeTokens splits a canonical type text ("?[int]") into tokens.
func TypeTokens(t string) []string {
	var out []string
	i := 0
	for i < len(t) {
		c := t[i]
		switch {
		case c == ' ':
			i++
		case c == '_' || (c >= 'a' && c <= 'z') || (c >= 'A' && c <= 'Z'):
			j := i
			for j < len(t) && (t[j] == '_' || (t[j] >= 'a' && t[j] <= 'z') || (t[j] >= 'A' && t[j] <= 'Z') || (t[j] >= '0' && t[j] <= '9')) {
				j++
			}
			out = append(out, t[i:j])
			i = j
		default:
			out = append(out, string(c))
			i++
		}
	}
	return out
}

func emit(out *[]string, parent, n *Node, pos int, o *PrintOpts) {
	req := parent != nil && needParens(parent, n, pos)
	if req {
		o.Required++
	}
	extra := 0
	if !req {
		isTarget := parent != nil && parent.K == KAssign && pos == posLeft
		if !(isTarget && o.KeepAssignLHS) {
			single := n.Level() >= LevelPostfix
			if (isTarget && o.ForceAssignLHS) || (single && o.chance(o.AtomParens)) || (!single && o.chance(o.NodeParens)) {
				extra = 1
				if o.chance(15) {
					extra = 2
				}
				if isTarget {
					o.LHSParens++
				}
			}
		}
	} else if o.chance(o.NodeParens / 4) {
		extra = 1 // doubled parentheses around a required group
	}
	o.Redundant += extra
	np := extra
	if req {
		np++
	}
	for i := 0; i < np; i++ {
		*out = append(*out, "(")
	}
	emitBare(out, n, o)
	for i := 0; i < np; i++ {
		*out = append(*out, ")")
	}
}

func emitBare(out *[]string, n *Node, o *PrintOpts) {
	add := func(s ...string) { *out = append(*out, s...) }
	trail := func(nonEmpty bool) {
		if nonEmpty && o.chance(o.TrailComma) {
			add(",")
			o.Trailing++
		}
	}
	switch n.K {
	case KInt:
		add(strconv.FormatInt(n.I, 10))
	case KFloat:
		s := strconv.FormatFloat(n.F, 'f', -1, 64)
		if !strings.Contains(s, ".") {
			s += ".0"
		}
		add(s)
	case KBool:
		if n.B {
			add("true")
		} else {
			add("false")
		}
	case KStr:
		q := "\""
		if o.AltQuotes && o.chance(30) {
			q = "'"
		}
		add(q + n.Op + q)
	case KIdent:
		add(n.Op)
	case KNull:
		add("null")
	case KNone:
		add("none")
	case KBin, KAssign:
		emit(out, n, n.Kids[0], posLeft, o)
		add(n.Op)
		emit(out, n, n.Kids[1], posRight, o)
	case KCast:
		emit(out, n, n.Kids[0], posCastBase, o)
		add("as")
		add(TypeTokens(n.Op)...)
	case KPrefix:
		add(n.Op)
		emit(out, n, n.Kids[0], posPrefixOperand, o)
	case KCall:
		emit(out, n, n.Kids[0], posPostfixBase, o)
		add("(")
		for i, a := range n.Kids[1:] {
			if i > 0 {
				add(",")
			}
			emit(out, n, a, posDelimited, o)
		}
		trail(len(n.Kids) > 1)
		add(")")
	case KIndex:
		emit(out, n, n.Kids[0], posPostfixBase, o)
		add("[")
		emit(out, n, n.Kids[1], posDelimited, o)
		add("]")
	case KMember:
		emit(out, n, n.Kids[0], posPostfixBase, o)
		add(".", n.Op)
	case KList:
		add("[")
		for i, a := range n.Kids {
			if i > 0 {
				add(",")
			}
			emit(out, n, a, posDelimited, o)
		}
		trail(len(n.Kids) > 0)
		add("]")
	case KObj:
		add("new", "{")
		for i, a := range n.Kids {
			if i > 0 {
				add(",")
			}
			if identLike(n.Keys[i]) {
				add(n.Keys[i])
			} else {
				add("\"" + n.Keys[i] + "\"")
			}
			add(":")
			emit(out, n, a, posDelimited, o)
		}
		trail(len(n.Kids) > 0)
		add("}")
	case KAnyObj:
		add("new", "{", "?", "}")
	case KRange:
		emit(out, n, n.Kids[0], posRangeSide, o)
		add(n.Op)
		emit(out, n, n.Kids[1], posRangeSide, o)
	default:
		panic("exprgen: cannot print node kind " + n.K)
	}
}

// ---------------------------------------------------------------------------------------------
// Layout
// ---------------------------------------------------------------------------------------------

// Layout styles.
const (
	StyleCanonical = iota // one space between all tokens
	StyleTight            // no whitespace except where two tokens would fuse
	StyleMixed            // random spaces / newlines / comments
	StyleComments         // a comment in (almost) every gap
	StyleLines            // one token per line (CRLF or LF)
	NumStyles
)

// LayoutOpts selects a layout variant.
type LayoutOpts struct {
	R     *fw.Rng
	Style int
	// Tabs: the tab character may be used as whitespace (off while the lexer rejects tabs).
	Tabs bool
	// TightOrAnd: the gap after | || |= & && &= may be empty or start with a comment (off in the
	// default workloads while the lexer swallows the character following these operators).
	TightOrAnd bool
	// Stats
	Comments int
	Newlines int
	Empty    int
}

func isWordByte(c byte) bool {
	return c == '_' || c == '$' || c == '@' || (c >= 'a' && c <= 'z') || (c >= 'A' && c <= 'Z') || (c >= '0' && c <= '9')
}

// puncts is the punctuation of the language (plus the two comment openers) for maximal munch.
var puncts = []string{
	"**=", "<<=", ">>=", "..=",
	"//", "/*", "..", "->", "=>", "~>", "||", "&&", "==", "!=", "<=", ">=", "**", "<<", ">>", "+=", "-=", "*=", "/=", "%=", "|=", "&=", "^=",
	"#", "?", "@", "$", ";", ",", ":", ".", "(", ")", "{", "}", "[", "]", "|", "&", "^", "!", "<", ">", "+", "-", "*", "/", "%", "=", "~",
}

func munch(s string) string {
	for _, p := range puncts {
		if strings.HasPrefix(s, p) {
			return p
		}
	}
	return ""
}

// NeedSep reports whether tokens a and b would lex differently when written without anything
// between them.
func NeedSep(a, b string) bool {
	if a == "" || b == "" {
		return false
	}
	la, fb := a[len(a)-1], b[0]
	if isWordByte(la) && (isWordByte(fb)) {
		return true
	}
	// a number followed by '.' could become a float / a range
	if la >= '0' && la <= '9' && fb == '.' {
		return len(b) == 1 // "1" "." is ambiguous in front of a digit; "1" ".." is fine
	}
	if la == '.' && fb >= '0' && fb <= '9' {
		return true
	}
	if a[0] == '"' || a[0] == '\'' || fb == '"' || fb == '\'' {
		return false
	}
	if isWordByte(la) || isWordByte(fb) {
		return false
	}
	// both punctuation: maximal munch over the concatenation must give back a first
	return munch(a+b) != a
}

var orAndOps = map[string]bool{"|": true, "||": true, "|=": true, "&": true, "&&": true, "&=": true}

// IsOrAndOp: the operators whose following character the lexer swallows (DESIGN Appendix A.2).
func IsOrAndOp(t string) bool { return orAndOps[t] }

var commentTexts = []string{"c", " note ", "+ ( [", "\" ' ", "a || b && c", " // nested line ", "**", "=", " 1 + 2 ", ")]}", "fn main() {", ";", "/ *", "* /", ", ,", "🙂 ünï"}
var lineCommentTexts = []string{"", " c", " /* not a block", " a + b * c", " \" unterminated", " )", " ,", " ;", " */", " ünï 🙂"}

func (o *LayoutOpts) ws() string {
	r := o.R
	n := 1 + r.Intn(3)
	var sb strings.Builder
	for i := 0; i < n; i++ {
		switch k := r.Intn(10); {
		case k < 6:
			sb.WriteByte(' ')
		case k < 8:
			sb.WriteByte('\n')
			o.Newlines++
		case k == 8:
			sb.WriteString("\r\n")
			o.Newlines++
		default:
			if o.Tabs {
				sb.WriteByte('\t')
			} else {
				sb.WriteString("  ")
			}
		}
	}
	return sb.String()
}

func (o *LayoutOpts) comment() string {
	o.Comments++
	if o.R.Intn(3) == 0 {
		o.Newlines++
		return "//" + fw.Pick(o.R, lineCommentTexts) + "\n"
	}
	return "/*" + fw.Pick(o.R, commentTexts) + "*/"
}

func (o *LayoutOpts) gap() string {
	r := o.R
	switch o.Style {
	case StyleCanonical:
		return " "
	case StyleTight:
		return ""
	case StyleLines:
		o.Newlines++
		if r.Intn(4) == 0 {
			return "\r\n"
		}
		return "\n"
	case StyleComments:
		var sb strings.Builder
		if r.Intn(2) == 0 {
			sb.WriteString(o.ws())
		}
		sb.WriteString(o.comment())
		if r.Intn(2) == 0 {
			sb.WriteString(o.ws())
		}
		if r.Intn(5) == 0 {
			sb.WriteString(o.comment())
		}
		return sb.String()
	default: // StyleMixed
		switch k := r.Intn(10); {
		case k < 3:
			return ""
		case k < 7:
			return o.ws()
		case k < 9:
			return o.ws() + o.comment() + o.ws()
		default:
			return o.comment()
		}
	}
}

// Layout joins tokens with gaps of whitespace and comments. The result lexes to exactly the
// given tokens (gaps are widened where two tokens would fuse).
func Layout(toks []string, o *LayoutOpts) string {
	if o.R == nil {
		o.Style = StyleCanonical
	}
	var sb strings.Builder
	lead := o.Style != StyleCanonical && o.Style != StyleTight
	if lead && o.R.Intn(2) == 0 {
		sb.WriteString(o.gap())
	}
	for i, t := range toks {
		sb.WriteString(t)
		if i+1 == len(toks) {
			break
		}
		nx := toks[i+1]
		g := o.gap()
		if g == "" && NeedSep(t, nx) {
			g = " "
		}
		// "/" directly followed by a comment would open a line comment / a different comment
		if (t == "/" || strings.HasSuffix(t, "/")) && (strings.HasPrefix(g, "/")) {
			g = " " + g
		}
		if !o.TightOrAnd && IsOrAndOp(t) {
			if g == "" || (g[0] != ' ' && g[0] != '\n' && g[0] != '\r') {
				g = " " + g
			}
		}
		if g == "" {
			o.Empty++
		}
		sb.WriteString(g)
	}
	if lead && o.R.Intn(2) == 0 {
		sb.WriteString(o.gap())
	}
	return sb.String()
}
