package exprgen

import (
	"errors"
	"fmt"
	"math"
)

// Val is a value of the int/bool subset.
type Val struct {
	IsBool bool
	I      int64
	B      bool
}

func (v Val) String() string {
	if v.IsBool {
		return fmt.Sprint(v.B)
	}
	return fmt.Sprint(v.I)
}

// ErrType: the tree is not well-typed in the int/bool subset. ErrUnsafe: evaluation leaves the
// region the property's value check covers (division by zero, shift count outside 0..63, `**`
// with a negative exponent or a result that is not exactly representable as a float64,
// MinInt64 / -1).
var (
	ErrType   = errors.New("ill-typed in the int/bool subset")
	ErrUnsafe = errors.New("outside the safe arithmetic region")
)

const maxExact = int64(1) << 53

// Eval evaluates a tree of the int/bool subset: 64-bit two's complement `+ - *` (wrapping),
// truncating `/`, `%` with the sign of the dividend, shifts with counts 0..63 (`>>` arithmetic),
// bitwise `| & ^` on ints, non-short-circuit logical `| & ^` on bools, `&& ||`, comparisons on
// ints, `== !=` on two ints or two bools, `-int`, `!bool`, identity casts `int as int` /
// `bool as bool`. Operands are literals, so evaluation order and short-circuiting are unobservable.
func Eval(n *Node) (Val, error) {
	switch n.K {
	case KInt:
		return Val{I: n.I}, nil
	case KBool:
		return Val{IsBool: true, B: n.B}, nil
	case KPrefix:
		v, err := Eval(n.Kids[0])
		if err != nil {
			return v, err
		}
		switch n.Op {
		case "-":
			if v.IsBool {
				return v, ErrType
			}
			return Val{I: -v.I}, nil
		case "!":
			if !v.IsBool {
				return v, ErrType
			}
			return Val{IsBool: true, B: !v.B}, nil
		}
		return v, ErrType
	case KCast:
		v, err := Eval(n.Kids[0])
		if err != nil {
			return v, err
		}
		if (n.Op == "int" && !v.IsBool) || (n.Op == "bool" && v.IsBool) {
			return v, nil
		}
		return v, ErrType
	case KBin:
		l, err := Eval(n.Kids[0])
		if err != nil {
			return l, err
		}
		r, err := Eval(n.Kids[1])
		if err != nil {
			return r, err
		}
		return evalBin(n.Op, l, r)
	}
	return Val{}, ErrType
}

func bv(b bool) Val { return Val{IsBool: true, B: b} }

func evalBin(op string, l, r Val) (Val, error) {
	if l.IsBool != r.IsBool {
		return Val{}, ErrType
	}
	if l.IsBool {
		a, b := l.B, r.B
		switch op {
		case "||", "|":
			return bv(a || b), nil
		case "&&", "&":
			return bv(a && b), nil
		case "^":
			return bv(a != b), nil
		case "==":
			return bv(a == b), nil
		case "!=":
			return bv(a != b), nil
		}
		return Val{}, ErrType
	}
	a, b := l.I, r.I
	switch op {
	case "+":
		return Val{I: a + b}, nil
	case "-":
		return Val{I: a - b}, nil
	case "*":
		return Val{I: a * b}, nil
	case "/":
		if b == 0 || (a == math.MinInt64 && b == -1) {
			return Val{}, ErrUnsafe
		}
		return Val{I: a / b}, nil
	case "%":
		if b == 0 || (a == math.MinInt64 && b == -1) {
			return Val{}, ErrUnsafe
		}
		return Val{I: a % b}, nil
	case "**":
		if b < 0 || b > 64 || a <= -maxExact || a >= maxExact {
			return Val{}, ErrUnsafe
		}
		res := int64(1)
		abs := a
		if abs < 0 {
			abs = -abs
		}
		for i := int64(0); i < b; i++ {
			// |res| < 2^53 and |a| < 2^53: the product fits in 106 bits, so test before multiplying
			if abs != 0 && (res >= maxExact/abs+1 || res <= -(maxExact/abs+1)) {
				return Val{}, ErrUnsafe
			}
			res *= a
			if res <= -maxExact || res >= maxExact {
				return Val{}, ErrUnsafe
			}
		}
		return Val{I: res}, nil
	case "<<":
		if b < 0 || b > 63 {
			return Val{}, ErrUnsafe
		}
		return Val{I: a << uint(b)}, nil
	case ">>":
		if b < 0 || b > 63 {
			return Val{}, ErrUnsafe
		}
		return Val{I: a >> uint(b)}, nil
	case "|":
		return Val{I: a | b}, nil
	case "&":
		return Val{I: a & b}, nil
	case "^":
		return Val{I: a ^ b}, nil
	case "==":
		return bv(a == b), nil
	case "!=":
		return bv(a != b), nil
	case "<":
		return bv(a < b), nil
	case ">":
		return bv(a > b), nil
	case "<=":
		return bv(a <= b), nil
	case ">=":
		return bv(a >= b), nil
	}
	return Val{}, ErrType
}
