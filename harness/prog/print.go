package prog

import (
	"fmt"
	"math"
	"strconv"
	"strings"
)

// Printer renders IR to homescript source text.
type Printer struct {
	sb     strings.Builder
	indent int
}

// Source renders all modules of a program: module name -> text.
func (p *Program) Source() map[string]string {
	out := map[string]string{}
	for _, m := range p.Modules {
		out[m.Name] = m.Source()
	}
	return out
}

// Source renders one module.
func (m *Module) Source() string {
	pr := &Printer{}
	for _, im := range m.Imports {
		if len(im.Items) == 1 {
			pr.linef("import %s from %s;", im.Items[0], im.Module)
		} else {
			pr.linef("import { %s } from %s;", strings.Join(im.Items, ", "), im.Module)
		}
	}
	for _, s := range m.Singletons {
		pr.linef("%s = %s;", s.Name, s.T.String())
	}
	for _, g := range m.Globals {
		pub := ""
		if g.Pub {
			pub = "pub "
		}
		pr.linef("%slet %s = %s;", pub, g.Name, pr.expr(g.V, 0))
	}
	for _, f := range m.Funcs {
		pr.fn(f)
	}
	return pr.sb.String()
}

func (pr *Printer) linef(format string, a ...any) {
	pr.sb.WriteString(strings.Repeat("    ", pr.indent))
	fmt.Fprintf(&pr.sb, format, a...)
	pr.sb.WriteByte('\n')
}

func params(ps []Param) string {
	parts := make([]string, len(ps))
	for i, p := range ps {
		if p.Singleton != "" {
			parts[i] = p.Name + ": " + p.Singleton
		} else {
			parts[i] = p.Name + ": " + p.T.String()
		}
	}
	return strings.Join(parts, ", ")
}

func (pr *Printer) fn(f *Func) {
	mod := ""
	if f.Pub {
		mod = "pub "
	}
	if f.Event {
		mod += "event "
	}
	ret := ""
	if f.Ret != nil && f.Ret.K != TNull {
		ret = " -> " + f.Ret.String()
	}
	pr.linef("%sfn %s(%s)%s %s", mod, f.Name, params(f.Params), ret, pr.block(f.Body))
}

// block renders a block expression (multi-line).
func (pr *Printer) block(b *Block) string {
	if b == nil {
		return "{}"
	}
	var sb strings.Builder
	sb.WriteString("{\n")
	pr.indent++
	ind := strings.Repeat("    ", pr.indent)
	for _, s := range b.Stmts {
		sb.WriteString(ind)
		sb.WriteString(pr.stmt(s))
		sb.WriteByte('\n')
	}
	if b.Tail != nil {
		sb.WriteString(ind)
		sb.WriteString(pr.expr(b.Tail, 0))
		sb.WriteByte('\n')
	}
	pr.indent--
	sb.WriteString(strings.Repeat("    ", pr.indent))
	sb.WriteString("}")
	return sb.String()
}

func (pr *Printer) stmt(s Stmt) string {
	switch s := s.(type) {
	case Let:
		if s.Annot != nil {
			return fmt.Sprintf("let %s: %s = %s;", s.Name, s.Annot.String(), pr.expr(s.V, 0))
		}
		return fmt.Sprintf("let %s = %s;", s.Name, pr.expr(s.V, 0))
	case ExprStmt:
		return pr.expr(s.X, 0) + ";"
	case Return:
		if s.V == nil {
			return "return;"
		}
		return "return " + pr.expr(s.V, 0) + ";"
	case Break:
		return "break;"
	case Continue:
		return "continue;"
	case Loop:
		return "loop " + pr.block(s.Body)
	case While:
		return "while " + pr.expr(s.Cond, 1) + " " + pr.block(s.Body)
	case For:
		return "for " + s.Name + " in " + pr.expr(s.Iter, 1) + " " + pr.block(s.Body)
	case Trigger:
		return fmt.Sprintf("trigger %s %s %s(%s);", s.Callback, s.Conn, s.Name, pr.args(s.Args))
	case Raw:
		return s.Text
	}
	panic(fmt.Sprintf("prog: unknown statement %T", s))
}

func (pr *Printer) args(as []Expr) string {
	parts := make([]string, len(as))
	for i, a := range as {
		parts[i] = pr.expr(a, 0)
	}
	return strings.Join(parts, ", ")
}

// Binding powers (left) per the operator table of property C07; higher binds tighter.
func prec(op string) int {
	switch op {
	case "||":
		return 2
	case "&&":
		return 3
	case "|":
		return 4
	case "^":
		return 5
	case "&":
		return 6
	case "==", "!=":
		return 7
	case "<", ">", "<=", ">=":
		return 8
	case "<<", ">>":
		return 9
	case "+", "-":
		return 10
	case "*", "/", "%":
		return 11
	case "as":
		return 12
	case "**":
		return 13
	}
	return 0
}

const (
	precAssign  = 1
	precPrefix  = 14
	precPostfix = 15
	precAtom    = 16
	// block-like expressions (block, if, match, try) are parenthesised whenever they are operands
	precBlocky = 0
)

// QuoteStr renders a string literal.
func QuoteStr(s string) string {
	var sb strings.Builder
	sb.WriteByte('"')
	for _, r := range s {
		switch r {
		case '"':
			sb.WriteString(`\"`)
		case '\\':
			sb.WriteString(`\\`)
		case '\n':
			sb.WriteString(`\n`)
		case '\r':
			sb.WriteString(`\r`)
		case '\t':
			sb.WriteString(`\t`)
		case '\b':
			sb.WriteString(`\b`)
		default:
			if r < 0x20 {
				fmt.Fprintf(&sb, `\x%02x`, r)
			} else {
				sb.WriteRune(r)
			}
		}
	}
	sb.WriteByte('"')
	return sb.String()
}

// FloatLitText renders a non-negative finite float as a literal the lexer reads back exactly.
func FloatLitText(f float64) string {
	s := strconv.FormatFloat(f, 'f', -1, 64)
	if !strings.Contains(s, ".") {
		s += ".0"
	}
	return s
}

// expr renders an expression; min is the minimal binding power the context requires, the
// expression is parenthesised when its own power is lower.
func (pr *Printer) expr(e Expr, min int) string {
	s, p := pr.exprP(e)
	if p < min {
		return "(" + s + ")"
	}
	return s
}

func (pr *Printer) exprP(e Expr) (string, int) {
	switch e := e.(type) {
	case IntLit:
		if e.V == math.MinInt64 {
			return "(-9223372036854775807 - 1)", precAtom
		}
		if e.V < 0 {
			return "-" + strconv.FormatInt(-e.V, 10), precPrefix
		}
		return strconv.FormatInt(e.V, 10), precAtom
	case FloatLit:
		if e.V < 0 || (e.V == 0 && math.Signbit(e.V)) {
			return "-" + FloatLitText(-e.V), precPrefix
		}
		return FloatLitText(e.V), precAtom
	case BoolLit:
		if e.V {
			return "true", precAtom
		}
		return "false", precAtom
	case StrLit:
		return QuoteStr(e.V), precAtom
	case NoneLit:
		return "none", precAtom
	case NullLit:
		return "null", precAtom
	case AnyObjLit:
		return "new { ? }", precAtom
	case ListLit:
		return "[" + pr.args(e.Elems) + "]", precAtom
	case ObjLit:
		parts := make([]string, len(e.Fields))
		for i, f := range e.Fields {
			parts[i] = f.Name + ": " + pr.expr(f.V, 0)
		}
		return "new { " + strings.Join(parts, ", ") + " }", precAtom
	case RangeLit:
		op := ".."
		if e.Incl {
			op = "..="
		}
		return pr.expr(e.A, precPostfix) + op + pr.expr(e.B, precPostfix), precAssign
	case Var:
		return e.Name, precAtom
	case Grouped:
		return "(" + pr.expr(e.X, 0) + ")", precAtom
	case Prefix:
		return e.Op + pr.expr(e.X, precPrefix), precPrefix
	case Infix:
		p := prec(e.Op)
		if e.Op == "**" {
			// right-associative
			return pr.expr(e.L, p+1) + " ** " + pr.expr(e.R, p), p
		}
		return pr.expr(e.L, p) + " " + e.Op + " " + pr.expr(e.R, p+1), p
	case Assign:
		return pr.expr(e.Target, precPostfix) + " " + e.Op + " " + pr.expr(e.V, precAssign+1), precAssign
	case Call:
		return e.Fn + "(" + pr.args(e.Args) + ")", precPostfix
	case Builtin:
		return e.Name + "(" + pr.args(e.Args) + ")", precPostfix
	case MCall:
		return pr.expr(e.Recv, precPostfix) + "." + e.Name + "(" + pr.args(e.Args) + ")", precPostfix
	case Index:
		return pr.expr(e.X, precPostfix) + "[" + pr.expr(e.I, 0) + "]", precPostfix
	case Member:
		return pr.expr(e.X, precPostfix) + "." + e.Name, precPostfix
	case Cast:
		return pr.expr(e.X, prec("as")) + " as " + e.To.String(), prec("as")
	case *Block:
		return pr.block(e), precBlocky
	case If:
		s := "if " + pr.expr(e.Cond, 1) + " " + pr.block(e.Then)
		if e.Else != nil {
			s += " else " + pr.block(e.Else)
		}
		return s, precBlocky
	case Match:
		var sb strings.Builder
		sb.WriteString("match " + pr.expr(e.X, 1) + " {\n")
		pr.indent++
		ind := strings.Repeat("    ", pr.indent)
		for _, a := range e.Arms {
			lits := make([]string, len(a.Lits))
			for i, l := range a.Lits {
				lits[i] = pr.expr(l, precPrefix)
			}
			sb.WriteString(ind + strings.Join(lits, " | ") + " => " + pr.expr(a.Body, 0) + ",\n")
		}
		if e.Default != nil {
			sb.WriteString(ind + "_ => " + pr.expr(e.Default, 0) + ",\n")
		}
		pr.indent--
		sb.WriteString(strings.Repeat("    ", pr.indent) + "}")
		return sb.String(), precBlocky
	case Try:
		return "try " + pr.block(e.Body) + " catch " + e.Name + " " + pr.block(e.Handler), precBlocky
	case FnLit:
		ret := ""
		if e.Ret != nil {
			ret = " -> " + e.Ret.String()
		}
		return "fn(" + params(e.Params) + ")" + ret + " " + pr.block(e.Body), precAtom
	}
	panic(fmt.Sprintf("prog: unknown expression %T", e))
}

// ExprText renders a single expression.
func ExprText(e Expr) string {
	pr := &Printer{}
	return pr.expr(e, 0)
}
