package prog

import (
	"fmt"
	"math"
	"sort"
	"strings"
	"unicode/utf8"
)

// ---------------------------------------------------------------------------------------------
// Values of the reference evaluator
// ---------------------------------------------------------------------------------------------

// Value: int64 | float64 | bool | string | NullV | *ListV | *ObjV | OptV | RangeV | *FnV
type Value any

type NullV struct{}
type ListV struct{ E []Value }
type ObjV struct {
	Keys []string
	M    map[string]Value
}
type OptV struct {
	Some bool
	V    Value
}
type RangeV struct {
	A, B int64
	Incl bool
}
type FnV struct {
	Name string // top-level function
	Mod  string
	Lit  *FnLit
	// Env: the scopes of the function that created the literal, shared with it (a function literal
	// "captures its environment": it reads and writes the very variables of its creator).
	Env    []scope
	EnvMod *Module
}

// Display mirrors the text rendering of runtime values (rendering is not what C01 is about).
func Display(v Value) string {
	switch v := v.(type) {
	case int64:
		return fmt.Sprint(v)
	case float64:
		return fmt.Sprint(v)
	case bool:
		return fmt.Sprint(v)
	case string:
		return v
	case NullV:
		return "null"
	case *ListV:
		parts := make([]string, len(v.E))
		for i, e := range v.E {
			parts[i] = Display(e)
		}
		return "[" + strings.Join(parts, ", ") + "]"
	case OptV:
		if !v.Some {
			return "none"
		}
		return "Some(" + Display(v.V) + ")"
	case RangeV:
		return fmt.Sprintf("%d..%d", v.A, v.B)
	case *ObjV:
		keys := append([]string{}, v.Keys...)
		sort.Strings(keys)
		parts := make([]string, len(keys))
		for i, k := range keys {
			parts[i] = k + ": " + strings.ReplaceAll(Display(v.M[k]), "\n", "\n    ")
		}
		return "{\n    " + strings.Join(parts, ",\n    ") + "\n}"
	case *FnV:
		return "<function>"
	}
	return fmt.Sprintf("<%T>", v)
}

// Equal is structural equality.
func Equal(a, b Value) bool {
	switch a := a.(type) {
	case int64:
		bb, ok := b.(int64)
		return ok && a == bb
	case float64:
		bb, ok := b.(float64)
		return ok && a == bb
	case bool:
		bb, ok := b.(bool)
		return ok && a == bb
	case string:
		bb, ok := b.(string)
		return ok && a == bb
	case NullV:
		_, ok := b.(NullV)
		return ok
	case *ListV:
		bb, ok := b.(*ListV)
		if !ok || len(a.E) != len(bb.E) {
			return false
		}
		for i := range a.E {
			if !Equal(a.E[i], bb.E[i]) {
				return false
			}
		}
		return true
	case OptV:
		bb, ok := b.(OptV)
		if !ok || a.Some != bb.Some {
			return false
		}
		return !a.Some || Equal(a.V, bb.V)
	case RangeV:
		bb, ok := b.(RangeV)
		return ok && a == bb
	case *ObjV:
		bb, ok := b.(*ObjV)
		if !ok || len(a.Keys) != len(bb.Keys) {
			return false
		}
		for _, k := range a.Keys {
			ov, ok := bb.M[k]
			if !ok || !Equal(a.M[k], ov) {
				return false
			}
		}
		return true
	}
	return false
}

// Clone is a deep copy.
func Clone(v Value) Value {
	switch v := v.(type) {
	case *ListV:
		n := &ListV{E: make([]Value, len(v.E))}
		for i, e := range v.E {
			n.E[i] = Clone(e)
		}
		return n
	case *ObjV:
		n := &ObjV{Keys: append([]string{}, v.Keys...), M: map[string]Value{}}
		for k, e := range v.M {
			n.M[k] = Clone(e)
		}
		return n
	case OptV:
		if v.Some {
			return OptV{true, Clone(v.V)}
		}
		return v
	}
	return v
}

// ---------------------------------------------------------------------------------------------
// Outcome and control signals
// ---------------------------------------------------------------------------------------------

// Result of evaluating a program with the reference model.
type Result struct {
	Effects string // canonical rendering: writes concatenated, other effects as \x01kind:text\x02
	Class   string // ok | fatal
	Kind    string // fatal kind: UncaughtThrow, ValueError, IndexOutOfBounds, StackOverFlow …
	Message string // message for UncaughtThrow
	Steps   int
	// Discard: the model ran out of its own step budget (generator bug / too long): drop the case.
	Discard bool
}

type sigKind int

const (
	sNone sigKind = iota
	sBreak
	sContinue
	sReturn
	sThrow
	sFatal
)

type signal struct {
	k    sigKind
	val  Value
	msg  string
	kind string
}

type scope map[string]*Value

type frame struct {
	scopes []scope
	mod    *Module
}

// Machine is the reference evaluator.
type Machine struct {
	prog    *Program
	out     strings.Builder
	frames  []*frame
	globals map[string]map[string]*Value // module -> name -> cell
	steps   int
	budget  int
	// Singletons provided by the host: name -> value
	HostSingletons map[string]Value
	CallLimit      int
}

type discard struct{}

func (m *Machine) tick() {
	m.steps++
	if m.steps > m.budget {
		panic(discard{})
	}
}

// ZeroValue of a type (for singletons without a host value).
func ZeroValue(t *Type) Value {
	switch t.K {
	case TInt:
		return int64(0)
	case TFloat:
		return float64(0)
	case TBool:
		return false
	case TStr:
		return ""
	case TNull:
		return NullV{}
	case TList:
		return &ListV{}
	case TOpt:
		return OptV{}
	case TRange:
		return RangeV{}
	case TObj:
		o := &ObjV{M: map[string]Value{}}
		for _, f := range t.Fields {
			o.Keys = append(o.Keys, f.Name)
			o.M[f.Name] = ZeroValue(f.T)
		}
		return o
	case TAnyObj:
		return &ObjV{M: map[string]Value{}}
	}
	return NullV{}
}

// Run evaluates the program: module initialisation (entry module's globals and singletons, then
// imported modules') followed by main of the entry module.
func Run(p *Program, hostSingletons map[string]Value, budget int) (res Result) {
	m := &Machine{prog: p, globals: map[string]map[string]*Value{}, budget: budget, HostSingletons: hostSingletons, CallLimit: 1 << 30}
	if m.budget == 0 {
		m.budget = 1_000_000
	}
	defer func() {
		if r := recover(); r != nil {
			if _, ok := r.(discard); ok {
				res = Result{Discard: true, Steps: m.steps}
				return
			}
			panic(r)
		}
	}()
	finish := func(s signal) Result {
		r := Result{Effects: m.out.String(), Steps: m.steps, Class: "ok"}
		switch s.k {
		case sThrow:
			r.Class, r.Kind, r.Message = "fatal", "UncaughtThrow", s.msg
		case sFatal:
			r.Class, r.Kind, r.Message = "fatal", s.kind, s.msg
		}
		return r
	}
	// init: every module's singletons and globals exactly once
	order := []*Module{p.Mod(p.Entry)}
	for _, mod := range p.Modules {
		if mod.Name != p.Entry {
			order = append(order, mod)
		}
	}
	for _, mod := range order {
		g := map[string]*Value{}
		m.globals[mod.Name] = g
		fr := &frame{mod: mod, scopes: []scope{{}}}
		m.frames = append(m.frames, fr)
		for _, s := range mod.Singletons {
			m.out.WriteString("\x01singleton:" + s.Name + "@" + mod.Name + "\x02")
			var v Value
			if hv, ok := hostSingletons[s.Name]; ok {
				v = hv
			} else {
				v = ZeroValue(s.T)
			}
			g[s.Name] = &v
		}
		for _, gl := range mod.Globals {
			v, s := m.expr(gl.V)
			if s.k != sNone {
				return finish(s)
			}
			vv := v
			g[gl.Name] = &vv
		}
		m.frames = m.frames[:len(m.frames)-1]
	}
	entry := p.Mod(p.Entry)
	mainFn := entry.Func("main")
	if mainFn == nil {
		return finish(signal{})
	}
	_, s := m.callFunc(entry, mainFn, nil)
	return finish(s)
}

func (m *Machine) cur() *frame { return m.frames[len(m.frames)-1] }

func (m *Machine) lookup(name string) *Value {
	fr := m.cur()
	for i := len(fr.scopes) - 1; i >= 0; i-- {
		if c, ok := fr.scopes[i][name]; ok {
			return c
		}
	}
	if c, ok := m.globals[fr.mod.Name][name]; ok {
		return c
	}
	return nil
}

func (m *Machine) declare(name string, v Value) {
	fr := m.cur()
	vv := v
	fr.scopes[len(fr.scopes)-1][name] = &vv
}

func (m *Machine) push() { fr := m.cur(); fr.scopes = append(fr.scopes, scope{}) }
func (m *Machine) pop()  { fr := m.cur(); fr.scopes = fr.scopes[:len(fr.scopes)-1] }

func fatal(kind, msg string) signal { return signal{k: sFatal, kind: kind, msg: msg} }

// resolveFunc finds a function by name: in the current module, else through its imports.
func (m *Machine) resolveFunc(name string) (*Module, *Func) {
	mod := m.cur().mod
	if f := mod.Func(name); f != nil {
		return mod, f
	}
	for _, im := range mod.Imports {
		for _, it := range im.Items {
			if it == name {
				if om := m.prog.Mod(im.Module); om != nil {
					if f := om.Func(name); f != nil {
						return om, f
					}
				}
			}
		}
	}
	return nil, nil
}

func (m *Machine) callFunc(mod *Module, f *Func, args []Value) (Value, signal) {
	if len(m.frames) > m.CallLimit {
		return nil, fatal("StackOverFlow", "call depth")
	}
	fr := &frame{mod: mod, scopes: []scope{{}}}
	m.frames = append(m.frames, fr)
	defer func() { m.frames = m.frames[:len(m.frames)-1] }()
	ai := 0
	for _, p := range f.Params {
		if p.Singleton != "" {
			c := m.globals[mod.Name][p.Singleton]
			m.declare(p.Name, *c)
			continue
		}
		m.declare(p.Name, args[ai])
		ai++
	}
	v, s := m.block(f.Body, false)
	if s.k == sReturn {
		return s.val, signal{}
	}
	if s.k == sBreak || s.k == sContinue {
		panic("prog: break/continue escaped a function")
	}
	return v, s
}

func (m *Machine) callLit(fv *FnV, args []Value) (Value, signal) {
	l := fv.Lit
	if len(m.frames) > m.CallLimit {
		return nil, fatal("StackOverFlow", "call depth")
	}
	fr := &frame{mod: fv.EnvMod, scopes: append(append([]scope{}, fv.Env...), scope{})}
	m.frames = append(m.frames, fr)
	defer func() { m.frames = m.frames[:len(m.frames)-1] }()
	for i, p := range l.Params {
		m.declare(p.Name, args[i])
	}
	v, s := m.block(l.Body, false)
	if s.k == sReturn {
		return s.val, signal{}
	}
	return v, s
}

func (m *Machine) block(b *Block, scoped bool) (Value, signal) {
	m.tick()
	if scoped {
		m.push()
		defer m.pop()
	}
	for _, st := range b.Stmts {
		if s := m.stmt(st); s.k != sNone {
			return nil, s
		}
	}
	if b.Tail != nil {
		return m.expr(b.Tail)
	}
	return NullV{}, signal{}
}

func (m *Machine) stmt(st Stmt) signal {
	m.tick()
	switch st := st.(type) {
	case Let:
		v, s := m.expr(st.V)
		if s.k != sNone {
			return s
		}
		m.declare(st.Name, v)
	case ExprStmt:
		_, s := m.expr(st.X)
		return s
	case Return:
		if st.V == nil {
			return signal{k: sReturn, val: NullV{}}
		}
		v, s := m.expr(st.V)
		if s.k != sNone {
			return s
		}
		return signal{k: sReturn, val: v}
	case Break:
		return signal{k: sBreak}
	case Continue:
		return signal{k: sContinue}
	case Loop:
		for {
			_, s := m.block(st.Body, true)
			if s.k == sBreak {
				break
			}
			if s.k != sNone && s.k != sContinue {
				return s
			}
		}
	case While:
		for {
			c, s := m.expr(st.Cond)
			if s.k != sNone {
				return s
			}
			if !c.(bool) {
				break
			}
			_, s = m.block(st.Body, true)
			if s.k == sBreak {
				break
			}
			if s.k != sNone && s.k != sContinue {
				return s
			}
		}
	case For:
		it, s := m.expr(st.Iter)
		if s.k != sNone {
			return s
		}
		var items []Value
		switch it := it.(type) {
		case *ListV:
			// snapshot
			for _, e := range it.E {
				items = append(items, Clone(e))
			}
		case RangeV:
			items = rangeItems(it)
		default:
			panic(fmt.Sprintf("prog: cannot iterate %T", it))
		}
		for _, item := range items {
			m.push()
			m.declare(st.Name, item)
			_, s := m.block(st.Body, false)
			m.pop()
			if s.k == sBreak {
				break
			}
			if s.k != sNone && s.k != sContinue {
				return s
			}
		}
	case Trigger:
		parts := make([]string, len(st.Args))
		for i, a := range st.Args {
			v, s := m.expr(a)
			if s.k != sNone {
				return s
			}
			parts[i] = Display(v)
		}
		m.out.WriteString("\x01trigger:" + st.Callback + "<-" + st.Name + "(" + strings.Join(parts, ",") + ")\x02")
	case Raw:
	default:
		panic(fmt.Sprintf("prog: unknown statement %T", st))
	}
	return signal{}
}

func rangeItems(r RangeV) []Value {
	var out []Value
	a, b := r.A, r.B
	n := 0
	if a <= b {
		for i := a; i < b || (r.Incl && i == b); i++ {
			out = append(out, i)
			if n++; n > 100000 {
				break
			}
		}
	} else {
		for i := a; i > b || (r.Incl && i == b); i-- {
			out = append(out, i)
			if n++; n > 100000 {
				break
			}
		}
	}
	return out
}

// place resolves an assignment target to a setter/getter pair.
func (m *Machine) place(t Expr) (get func() Value, set func(Value), s signal) {
	switch t := t.(type) {
	case Var:
		c := m.lookup(t.Name)
		if c == nil {
			panic("prog: assignment to unknown variable " + t.Name)
		}
		return func() Value { return *c }, func(v Value) { *c = v }, signal{}
	case Grouped:
		return m.place(t.X)
	case Index:
		base, s := m.expr(t.X)
		if s.k != sNone {
			return nil, nil, s
		}
		iv, s := m.expr(t.I)
		if s.k != sNone {
			return nil, nil, s
		}
		l := base.(*ListV)
		i := iv.(int64)
		n := int64(len(l.E))
		if i < 0 {
			i += n
		}
		if i < 0 || i >= n {
			return nil, nil, fatal("IndexOutOfBounds", "index")
		}
		// The right-hand side runs between resolving the place and storing into it. If it changes the
		// length of the list (pop / push on the same list), what the store means is not something the
		// source-level semantics of C01 spell out: such a program is dropped, not judged.
		live := func() {
			if int64(len(l.E)) != n {
				panic(discard{})
			}
		}
		return func() Value { live(); return l.E[i] }, func(v Value) { live(); l.E[i] = v }, signal{}
	case Member:
		base, s := m.expr(t.X)
		if s.k != sNone {
			return nil, nil, s
		}
		o := base.(*ObjV)
		return func() Value { return o.M[t.Name] }, func(v Value) { o.M[t.Name] = v }, signal{}
	}
	panic(fmt.Sprintf("prog: bad assignment target %T", t))
}

func (m *Machine) exprs(es []Expr) ([]Value, signal) {
	out := make([]Value, len(es))
	for i, e := range es {
		v, s := m.expr(e)
		if s.k != sNone {
			return nil, s
		}
		out[i] = v
	}
	return out, signal{}
}

func (m *Machine) expr(e Expr) (Value, signal) {
	m.tick()
	switch e := e.(type) {
	case IntLit:
		return e.V, signal{}
	case FloatLit:
		return e.V, signal{}
	case BoolLit:
		return e.V, signal{}
	case StrLit:
		return e.V, signal{}
	case NoneLit:
		return OptV{}, signal{}
	case NullLit:
		return NullV{}, signal{}
	case AnyObjLit:
		return &ObjV{M: map[string]Value{}}, signal{}
	case Grouped:
		return m.expr(e.X)
	case ListLit:
		vs, s := m.exprs(e.Elems)
		if s.k != sNone {
			return nil, s
		}
		return &ListV{E: vs}, signal{}
	case ObjLit:
		o := &ObjV{M: map[string]Value{}}
		for _, f := range e.Fields {
			v, s := m.expr(f.V)
			if s.k != sNone {
				return nil, s
			}
			o.Keys = append(o.Keys, f.Name)
			o.M[f.Name] = v
		}
		return o, signal{}
	case RangeLit:
		a, s := m.expr(e.A)
		if s.k != sNone {
			return nil, s
		}
		b, s := m.expr(e.B)
		if s.k != sNone {
			return nil, s
		}
		return RangeV{a.(int64), b.(int64), e.Incl}, signal{}
	case Var:
		c := m.lookup(e.Name)
		if c == nil {
			if mod, f := m.resolveFunc(e.Name); f != nil {
				return &FnV{Name: e.Name, Mod: mod.Name}, signal{}
			}
			panic("prog: unknown variable " + e.Name)
		}
		return *c, signal{}
	case Prefix:
		v, s := m.expr(e.X)
		if s.k != sNone {
			return nil, s
		}
		switch e.Op {
		case "-":
			switch v := v.(type) {
			case int64:
				return -v, signal{}
			case float64:
				return -v, signal{}
			}
		case "!":
			switch v := v.(type) {
			case int64:
				return ^v, signal{}
			case bool:
				return !v, signal{}
			}
		case "?":
			return OptV{true, v}, signal{}
		}
		panic("prog: bad prefix " + e.Op)
	case Infix:
		return m.infix(e)
	case Assign:
		get, set, s := m.place(e.Target)
		if s.k != sNone {
			return nil, s
		}
		if e.Op == "=" {
			v, s := m.expr(e.V)
			if s.k != sNone {
				return nil, s
			}
			set(v)
			return NullV{}, signal{}
		}
		old := get()
		rhs, s := m.expr(e.V)
		if s.k != sNone {
			return nil, s
		}
		nv, s := binop(strings.TrimSuffix(e.Op, "="), old, rhs)
		if s.k != sNone {
			return nil, s
		}
		set(nv)
		return NullV{}, signal{}
	case Call:
		// local variable holding a function?
		if c := m.lookup(e.Fn); c != nil {
			fv := (*c).(*FnV)
			args, s := m.exprs(e.Args)
			if s.k != sNone {
				return nil, s
			}
			if fv.Lit != nil {
				return m.callLit(fv, args)
			}
			mod := m.prog.Mod(fv.Mod)
			return m.callFunc(mod, mod.Func(fv.Name), args)
		}
		mod, f := m.resolveFunc(e.Fn)
		if f == nil {
			panic("prog: unknown function " + e.Fn)
		}
		args, s := m.exprs(e.Args)
		if s.k != sNone {
			return nil, s
		}
		return m.callFunc(mod, f, args)
	case Builtin:
		args, s := m.exprs(e.Args)
		if s.k != sNone {
			return nil, s
		}
		switch e.Name {
		case "print", "println":
			parts := make([]string, len(args))
			for i, a := range args {
				parts[i] = Display(a)
			}
			m.out.WriteString(strings.Join(parts, " "))
			if m.out.Len() > 4<<20 {
				// output bomb (a list doubled inside a loop and printed each time): not a useful case
				panic(discard{})
			}
			if e.Name == "println" {
				m.out.WriteString("\n")
			}
			return NullV{}, signal{}
		case "throw":
			return nil, signal{k: sThrow, msg: Display(args[0])}
		case "assert":
			if !args[0].(bool) {
				return nil, fatal("HostError", "Assert failed")
			}
			return NullV{}, signal{}
		}
		panic("prog: unknown builtin " + e.Name)
	case MCall:
		return m.mcall(e)
	case Index:
		base, s := m.expr(e.X)
		if s.k != sNone {
			return nil, s
		}
		iv, s := m.expr(e.I)
		if s.k != sNone {
			return nil, s
		}
		l := base.(*ListV)
		i := iv.(int64)
		n := int64(len(l.E))
		if i < 0 {
			i += n
		}
		if i < 0 || i >= n {
			return nil, fatal("IndexOutOfBounds", "index")
		}
		return l.E[i], signal{}
	case Member:
		base, s := m.expr(e.X)
		if s.k != sNone {
			return nil, s
		}
		return base.(*ObjV).M[e.Name], signal{}
	case Cast:
		v, s := m.expr(e.X)
		if s.k != sNone {
			return nil, s
		}
		return castScalar(v, e.To), signal{}
	case *Block:
		return m.block(e, true)
	case If:
		c, s := m.expr(e.Cond)
		if s.k != sNone {
			return nil, s
		}
		if c.(bool) {
			return m.block(e.Then, true)
		}
		if e.Else != nil {
			return m.block(e.Else, true)
		}
		return NullV{}, signal{}
	case Match:
		x, s := m.expr(e.X)
		if s.k != sNone {
			return nil, s
		}
		for _, arm := range e.Arms {
			for _, l := range arm.Lits {
				lv, s := m.expr(l)
				if s.k != sNone {
					return nil, s
				}
				if Equal(x, lv) {
					return m.expr(arm.Body)
				}
			}
		}
		if e.Default != nil {
			return m.expr(e.Default)
		}
		return NullV{}, signal{}
	case Try:
		depth := len(m.frames)
		nsc := len(m.cur().scopes)
		v, s := m.block(e.Body, true)
		if s.k == sThrow {
			// unwinding: frames above are already popped by Go returns; restore scope depth
			_ = depth
			fr := m.cur()
			fr.scopes = fr.scopes[:nsc]
			m.push()
			defer m.pop()
			m.declare(e.Name, &ObjV{Keys: []string{"message"}, M: map[string]Value{"message": s.msg}})
			return m.block(e.Handler, false)
		}
		return v, s
	case FnLit:
		lit := e
		return &FnV{Lit: &lit, Env: append([]scope{}, m.cur().scopes...), EnvMod: m.cur().mod}, signal{}
	}
	panic(fmt.Sprintf("prog: unknown expression %T", e))
}

func castScalar(v Value, to *Type) Value {
	switch to.K {
	case TInt:
		switch v := v.(type) {
		case int64:
			return v
		case float64:
			return int64(v)
		case bool:
			if v {
				return int64(1)
			}
			return int64(0)
		}
	case TFloat:
		switch v := v.(type) {
		case int64:
			return float64(v)
		case float64:
			return v
		case bool:
			if v {
				return float64(1)
			}
			return float64(0)
		}
	case TBool:
		switch v := v.(type) {
		case int64:
			return v != 0
		case float64:
			return v != 0
		case bool:
			return v
		}
	}
	return v
}

func (m *Machine) infix(e Infix) (Value, signal) {
	l, s := m.expr(e.L)
	if s.k != sNone {
		return nil, s
	}
	switch e.Op {
	case "&&":
		if !l.(bool) {
			return false, signal{}
		}
		return m.expr(e.R)
	case "||":
		if l.(bool) {
			return true, signal{}
		}
		return m.expr(e.R)
	}
	r, s := m.expr(e.R)
	if s.k != sNone {
		return nil, s
	}
	return binop(e.Op, l, r)
}

// IntPow is exact integer power with wrap-around for exponent >= 0.
func IntPow(b, e int64) int64 {
	if e < 0 {
		switch b {
		case 1:
			return 1
		case -1:
			if e%2 == 0 {
				return 1
			}
			return -1
		}
		return 0
	}
	res := int64(1)
	for e > 0 {
		if e&1 == 1 {
			res *= b
		}
		b *= b
		e >>= 1
	}
	return res
}

const divZeroMsg = "Division by zero error: this is operation is illegal"

func binop(op string, l, r Value) (Value, signal) {
	switch op {
	case "==":
		return Equal(l, r), signal{}
	case "!=":
		return !Equal(l, r), signal{}
	}
	switch a := l.(type) {
	case int64:
		b := r.(int64)
		switch op {
		case "+":
			return a + b, signal{}
		case "-":
			return a - b, signal{}
		case "*":
			return a * b, signal{}
		case "/":
			if b == 0 {
				return nil, fatal("ValueError", divZeroMsg)
			}
			if a == math.MinInt64 && b == -1 {
				return a, signal{}
			}
			return a / b, signal{}
		case "%":
			if b == 0 {
				return nil, fatal("ValueError", divZeroMsg)
			}
			if b == -1 {
				return int64(0), signal{}
			}
			return a % b, signal{}
		case "**":
			if a == 0 && b < 0 {
				return nil, fatal("ValueError", divZeroMsg)
			}
			return IntPow(a, b), signal{}
		case "<<":
			if b < 0 {
				return nil, fatal("ValueError", "negative shift")
			}
			if b >= 64 {
				return int64(0), signal{}
			}
			return a << uint(b), signal{}
		case ">>":
			if b < 0 {
				return nil, fatal("ValueError", "negative shift")
			}
			if b >= 64 {
				if a < 0 {
					return int64(-1), signal{}
				}
				return int64(0), signal{}
			}
			return a >> uint(b), signal{}
		case "|":
			return a | b, signal{}
		case "&":
			return a & b, signal{}
		case "^":
			return a ^ b, signal{}
		case "<":
			return a < b, signal{}
		case ">":
			return a > b, signal{}
		case "<=":
			return a <= b, signal{}
		case ">=":
			return a >= b, signal{}
		}
	case float64:
		b := r.(float64)
		switch op {
		case "+":
			return a + b, signal{}
		case "-":
			return a - b, signal{}
		case "*":
			return a * b, signal{}
		case "/":
			if b == 0 {
				return nil, fatal("ValueError", divZeroMsg)
			}
			return a / b, signal{}
		case "**":
			return math.Pow(a, b), signal{}
		case "<":
			return a < b, signal{}
		case ">":
			return a > b, signal{}
		case "<=":
			return a <= b, signal{}
		case ">=":
			return a >= b, signal{}
		}
	case bool:
		b := r.(bool)
		switch op {
		case "|":
			return a || b, signal{}
		case "&":
			return a && b, signal{}
		case "^":
			return a != b, signal{}
		}
	case string:
		if op == "+" {
			if len(a)+len(r.(string)) > 1<<20 {
				panic(discard{})
			}
			return a + r.(string), signal{}
		}
	}
	panic(fmt.Sprintf("prog: bad operator %s on %T", op, l))
}

const unwrapMsg = "Called 'unwrap' on a 'null' option value"

func (m *Machine) mcall(e MCall) (Value, signal) {
	recv, s := m.expr(e.Recv)
	if s.k != sNone {
		return nil, s
	}
	args, s := m.exprs(e.Args)
	if s.k != sNone {
		return nil, s
	}
	switch r := recv.(type) {
	case *ObjV:
		switch e.Name {
		case "set":
			k := args[0].(string)
			if _, ok := r.M[k]; !ok {
				r.Keys = append(r.Keys, k)
			}
			r.M[k] = args[1]
			return NullV{}, signal{}
		case "keys":
			ks := append([]string{}, r.Keys...)
			sort.Strings(ks)
			l := &ListV{}
			for _, k := range ks {
				l.E = append(l.E, k)
			}
			return l, signal{}
		}
	case *ListV:
		switch e.Name {
		case "len":
			return int64(len(r.E)), signal{}
		case "push":
			if len(r.E) > 5000 {
				panic(discard{})
			}
			r.E = append(r.E, args[0])
			return NullV{}, signal{}
		case "push_front":
			r.E = append([]Value{args[0]}, r.E...)
			return NullV{}, signal{}
		case "pop":
			if len(r.E) == 0 {
				return OptV{}, signal{}
			}
			v := r.E[len(r.E)-1]
			r.E = r.E[:len(r.E)-1]
			return OptV{true, v}, signal{}
		case "pop_front":
			if len(r.E) == 0 {
				return OptV{}, signal{}
			}
			v := r.E[0]
			r.E = r.E[1:]
			return OptV{true, v}, signal{}
		case "last":
			if len(r.E) == 0 {
				return OptV{}, signal{}
			}
			return OptV{true, r.E[len(r.E)-1]}, signal{}
		case "contains":
			for _, x := range r.E {
				if Equal(x, args[0]) {
					return true, signal{}
				}
			}
			return false, signal{}
		case "join":
			parts := make([]string, len(r.E))
			for i, x := range r.E {
				parts[i] = Display(x)
			}
			return strings.Join(parts, args[0].(string)), signal{}
		case "to_string":
			return Display(r), signal{}
		}
	case string:
		switch e.Name {
		case "len":
			return int64(utf8.RuneCountInString(r)), signal{}
		case "contains":
			return strings.Contains(r, args[0].(string)), signal{}
		case "to_upper":
			return strings.ToUpper(r), signal{}
		case "to_lower":
			return strings.ToLower(r), signal{}
		case "repeat":
			n := args[0].(int64)
			if n < 0 {
				n = 0
			}
			return strings.Repeat(r, int(n)), signal{}
		case "to_string":
			return r, signal{}
		}
	case int64:
		switch e.Name {
		case "to_string":
			return Display(r), signal{}
		}
	case float64:
		switch e.Name {
		case "to_string":
			return Display(r), signal{}
		}
	case bool:
		if e.Name == "to_string" {
			return Display(r), signal{}
		}
	case OptV:
		switch e.Name {
		case "is_some":
			return r.Some, signal{}
		case "is_none":
			return !r.Some, signal{}
		case "unwrap_or":
			if r.Some {
				return r.V, signal{}
			}
			return args[0], signal{}
		case "unwrap":
			if !r.Some {
				return nil, signal{k: sThrow, msg: unwrapMsg}
			}
			return r.V, signal{}
		case "to_string":
			return Display(r), signal{}
		}
	case RangeV:
		if e.Name == "to_string" {
			return Display(r), signal{}
		}
	}
	panic(fmt.Sprintf("prog: unknown member %s on %T", e.Name, recv))
}
