// Package prog is the harness-owned typed program IR with a printer (IR -> homescript source), a
// type-directed generator and a reference evaluator (DESIGN.md §2.5, Appendix C and F). It shares
// no code with /repo: the evaluator implements the source-level semantics property C01 states.
package prog

import (
	"fmt"
	"strings"
)

// Kind of a type.
type Kind int

const (
	TInt Kind = iota
	TFloat
	TBool
	TStr
	TNull
	TList
	TObj
	TOpt
	TRange
	TFn
	TAnyObj
)

// Field of an object type.
type Field struct {
	Name string
	T    *Type
}

// Type is a homescript type.
type Type struct {
	K      Kind
	Elem   *Type   // list / option element
	Fields []Field // object
	Params []*Type // fn
	PNames []string
	Ret    *Type // fn
}

var (
	Int   = &Type{K: TInt}
	Float = &Type{K: TFloat}
	Bool  = &Type{K: TBool}
	Str   = &Type{K: TStr}
	Null  = &Type{K: TNull}
	Range = &Type{K: TRange}
	AnyOb = &Type{K: TAnyObj}
)

func ListOf(t *Type) *Type { return &Type{K: TList, Elem: t} }
func OptOf(t *Type) *Type  { return &Type{K: TOpt, Elem: t} }
func ObjOf(fs ...Field) *Type {
	return &Type{K: TObj, Fields: fs}
}
func FnOf(ret *Type, names []string, params ...*Type) *Type {
	return &Type{K: TFn, Params: params, PNames: names, Ret: ret}
}

// String renders the type in homescript syntax.
func (t *Type) String() string {
	switch t.K {
	case TInt:
		return "int"
	case TFloat:
		return "float"
	case TBool:
		return "bool"
	case TStr:
		return "str"
	case TNull:
		return "null"
	case TRange:
		return "range"
	case TAnyObj:
		return "{ ? }"
	case TList:
		return "[" + t.Elem.String() + "]"
	case TOpt:
		return "?" + t.Elem.String()
	case TObj:
		parts := make([]string, len(t.Fields))
		for i, f := range t.Fields {
			parts[i] = f.Name + ": " + f.T.String()
		}
		return "{ " + strings.Join(parts, ", ") + " }"
	case TFn:
		parts := make([]string, len(t.Params))
		for i, p := range t.Params {
			parts[i] = t.PNames[i] + ": " + p.String()
		}
		return "fn(" + strings.Join(parts, ", ") + ") -> " + t.Ret.String()
	}
	return "?"
}

// Eq is structural type equality.
func (t *Type) Eq(o *Type) bool {
	if t.K != o.K {
		return false
	}
	switch t.K {
	case TList, TOpt:
		return t.Elem.Eq(o.Elem)
	case TObj:
		if len(t.Fields) != len(o.Fields) {
			return false
		}
		for i := range t.Fields {
			if t.Fields[i].Name != o.Fields[i].Name || !t.Fields[i].T.Eq(o.Fields[i].T) {
				return false
			}
		}
	case TFn:
		if len(t.Params) != len(o.Params) || !t.Ret.Eq(o.Ret) {
			return false
		}
		for i := range t.Params {
			if !t.Params[i].Eq(o.Params[i]) || t.PNames[i] != o.PNames[i] {
				return false
			}
		}
	}
	return true
}

// IsHeap reports whether values of the type are shared by reference.
func (t *Type) IsHeap() bool { return t.K == TList || t.K == TObj || t.K == TAnyObj }

// ---------------------------------------------------------------------------------------------
// Expressions and statements
// ---------------------------------------------------------------------------------------------

// Expr is an expression node. T() is its static type.
type Expr interface{ T() *Type }

type (
	IntLit   struct{ V int64 }
	FloatLit struct{ V float64 }
	BoolLit  struct{ V bool }
	StrLit   struct{ V string }
	NoneLit  struct{ Ty *Type } // Ty = option type
	NullLit  struct{}
	// AnyObjLit is the empty any-object literal `new { ? }`.
	AnyObjLit struct{}
	ListLit   struct {
		Elems []Expr
		Ty    *Type
	}
	FieldInit struct {
		Name string
		V    Expr
	}
	ObjLit   struct{ Fields []FieldInit }
	RangeLit struct {
		A, B Expr
		Incl bool
	}
	Var struct {
		Name string
		Ty   *Type
	}
	Prefix struct {
		Op string // - ! ?
		X  Expr
	}
	Infix struct {
		Op   string
		L, R Expr
	}
	// Assign: Target is Var, Index or Member; Op is "=", "+=", …
	Assign struct {
		Op     string
		Target Expr
		V      Expr
	}
	// Call of a named top-level function or of a local variable holding a function.
	Call struct {
		Fn   string
		Args []Expr
		Ret  *Type
	}
	// Builtin: print, println, throw, assert.
	Builtin struct {
		Name string
		Args []Expr
	}
	// MCall: builtin member call on a receiver.
	MCall struct {
		Recv Expr
		Name string
		Args []Expr
		Ret  *Type
	}
	Index struct {
		X, I Expr
	}
	Member struct {
		X    Expr
		Name string
	}
	Cast struct {
		X  Expr
		To *Type
	}
	Block struct {
		Stmts []Stmt
		Tail  Expr // may be nil (then the block is of type null)
	}
	If struct {
		Cond Expr
		Then *Block
		Else *Block // nil allowed when type is null
	}
	Arm struct {
		Lits []Expr
		Body Expr
	}
	Match struct {
		X       Expr
		Arms    []Arm
		Default Expr // may be nil
		Ty      *Type
	}
	Try struct {
		Body    *Block
		Name    string
		Handler *Block
	}
	FnLit struct {
		Params []Param
		Ret    *Type
		Body   *Block
	}
	// Grouped: explicit parentheses (printer adds those it needs itself).
	Grouped struct{ X Expr }
)

func (IntLit) T() *Type    { return Int }
func (FloatLit) T() *Type  { return Float }
func (BoolLit) T() *Type   { return Bool }
func (StrLit) T() *Type    { return Str }
func (n NoneLit) T() *Type { return n.Ty }
func (NullLit) T() *Type   { return Null }
func (AnyObjLit) T() *Type { return AnyOb }
func (l ListLit) T() *Type { return l.Ty }
func (RangeLit) T() *Type  { return Range }
func (v Var) T() *Type     { return v.Ty }
func (a Assign) T() *Type  { return Null }
func (c Call) T() *Type    { return c.Ret }
func (m MCall) T() *Type   { return m.Ret }
func (c Cast) T() *Type    { return c.To }
func (g Grouped) T() *Type { return g.X.T() }
func (m Match) T() *Type   { return m.Ty }
func (f FnLit) T() *Type {
	names := make([]string, len(f.Params))
	ts := make([]*Type, len(f.Params))
	for i, p := range f.Params {
		names[i], ts[i] = p.Name, p.T
	}
	return FnOf(f.Ret, names, ts...)
}
func (o ObjLit) T() *Type {
	fs := make([]Field, len(o.Fields))
	for i, f := range o.Fields {
		fs[i] = Field{f.Name, f.V.T()}
	}
	return ObjOf(fs...)
}
func (p Prefix) T() *Type {
	if p.Op == "?" {
		return OptOf(p.X.T())
	}
	return p.X.T()
}
func (i Infix) T() *Type {
	switch i.Op {
	case "==", "!=", "<", ">", "<=", ">=", "&&", "||":
		return Bool
	}
	return i.L.T()
}
func (b Builtin) T() *Type { return Null }
func (i Index) T() *Type {
	if i.X.T().K == TStr {
		return Str
	}
	return i.X.T().Elem
}
func (m Member) T() *Type {
	for _, f := range m.X.T().Fields {
		if f.Name == m.Name {
			return f.T
		}
	}
	panic("prog: unknown field " + m.Name)
}
func (b *Block) T() *Type {
	if b.Tail == nil {
		return Null
	}
	return b.Tail.T()
}
func (i If) T() *Type {
	if i.Else == nil {
		return Null
	}
	return i.Then.T()
}
func (t Try) T() *Type { return t.Body.T() }

// Stmt is a statement node.
type Stmt interface{ stmt() }

type (
	Let struct {
		Name  string
		Annot *Type // optional annotation
		V     Expr
	}
	ExprStmt struct{ X Expr }
	Return   struct{ V Expr } // V may be nil
	Break    struct{}
	Continue struct{}
	Loop     struct{ Body *Block }
	While    struct {
		Cond Expr
		Body *Block
	}
	For struct {
		Name string
		Iter Expr
		Body *Block
	}
	// Trigger statement: trigger <Callback> at|on <TriggerName>(args)
	Trigger struct {
		Callback, Conn, Name string
		Args                 []Expr
	}
	// Raw is an escape hatch: literal source text (the model ignores it; only for scaffolding
	// that has no semantics, e.g. comments).
	Raw struct{ Text string }
)

func (Let) stmt()      {}
func (ExprStmt) stmt() {}
func (Return) stmt()   {}
func (Break) stmt()    {}
func (Continue) stmt() {}
func (Loop) stmt()     {}
func (While) stmt()    {}
func (For) stmt()      {}
func (Trigger) stmt()  {}
func (Raw) stmt()      {}

// Param of a function.
type Param struct {
	Name string
	T    *Type
	// Singleton: the parameter extracts the module singleton with this name ("$S"); callers do
	// not pass it.
	Singleton string
}

// Func is a top-level function.
type Func struct {
	Name   string
	Params []Param
	Ret    *Type
	Body   *Block
	Pub    bool
	Event  bool
}

// Global is a module-level let.
type Global struct {
	Name string
	V    Expr
	Pub  bool
}

// Singleton declaration: $Name = Type;
type Singleton struct {
	Name string // including the leading $
	T    *Type
}

// Import of items from another module.
type Import struct {
	Items  []string // rendered verbatim ("f", "type T", "trigger minute")
	Module string
}

// Module is one source file.
type Module struct {
	Name       string
	Imports    []Import
	Singletons []Singleton
	Globals    []Global
	Funcs      []*Func
}

// Program is a set of modules; Entry names the entry module.
type Program struct {
	Modules []*Module
	Entry   string
}

// Func lookup in a module.
func (m *Module) Func(name string) *Func {
	for _, f := range m.Funcs {
		if f.Name == name {
			return f
		}
	}
	return nil
}

// Mod lookup.
func (p *Program) Mod(name string) *Module {
	for _, m := range p.Modules {
		if m.Name == name {
			return m
		}
	}
	return nil
}

func fmtFloat(f float64) string {
	s := fmt.Sprint(f)
	return s
}
