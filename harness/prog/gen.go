package prog

import (
	"fmt"
	"math"

	"hv/fw"
)

// Features switches constructs on and off. A feature that a known finding makes unusable is
// switched off in the main workload (DESIGN.md §2.9 "poisons") and exercised in a poisoned one.
type Features struct {
	Floats          bool
	Strings         bool
	Lists           bool
	Objects         bool
	Options         bool
	Casts           bool
	Funcs           bool
	Recursion       bool
	Closures        bool // non-capturing function literals
	Loops           bool
	Exceptions      bool // throw/catch inside one function, statement context
	ExcAcrossCalls  bool // throw in a callee, catch in the caller
	ExitFromTry     bool // break/continue/return out of a try block
	ExprCtxExits    bool // break/continue/return inside an operand position
	MatchExpr       bool
	MatchFallthru   bool // match without default that may not hit any arm
	BlockExpr       bool
	Shadowing       bool
	DigitNames      bool // variable names that end in digits (mangling collisions)
	Globals         bool
	IntendedFatal   bool // end the program with a fatal error on purpose (sometimes)
	SideEffectArgs  bool // call arguments with side effects
	Pow             bool
	ElemAliasing    bool // let x = l[i] / scalar variables stored into lists and mutated afterwards
	CompoundOnPlace bool // compound assignment on list elements / fields
	NullLiteral     bool
	// ClosureCapture: function literals read local variables of the function that creates them.
	ClosureCapture bool
	Singletons     bool
	Triggers       bool
}

// AllFeatures enables everything.
func AllFeatures() Features {
	return Features{true, true, true, true, true, true, true, true, true, true, true, true, true, true, true, true, true, true, true, true, true, true, true, true, true, true, true, true, true}
}

type varInfo struct {
	name string
	t    *Type
}

type genFn struct {
	name   string
	params []Param
	ret    *Type
}

// Gen generates programs.
type Gen struct {
	R      *fw.Rng
	F      Features
	scopes [][]varInfo
	fns    []genFn
	nameN  int
	traceN int
	// context
	loopDepth int
	inFn      *genFn
	inTry     int
	// loopInTry: the innermost enclosing loop lies outside of the innermost enclosing try (so that
	// break/continue leave the try block); maintained by loopStmt/tryStmt.
	loopInTry  bool
	thrower    string // name of a helper function that may throw ("" = none)
	closureN   int
	anyObjFn   bool
	noAssign   bool // no assignment statements / expressions (bodies of capturing closures)
	extraFuncs []*Func
	hasTrigger bool
	budget     int // remaining statement budget
	// Cover collects construct names used in the program.
	Cover map[string]bool
}

func (g *Gen) cover(s string) { g.Cover[s] = true }

var baseNames = []string{"a", "b", "c", "d", "k", "m", "n", "p", "q", "r", "s", "t", "u", "v", "w", "x", "y", "z", "acc", "tmp", "val", "item", "cnt", "idx"}

func (g *Gen) fresh() string {
	g.nameN++
	if g.F.DigitNames {
		base := fw.Pick(g.R, baseNames)
		switch g.R.Intn(4) {
		case 0:
			return base
		case 1:
			return fmt.Sprintf("%s%d", base, g.R.Intn(12))
		default:
			return fmt.Sprintf("%s_%d", base, g.nameN)
		}
	}
	// letters only: cannot collide after mangling (<name><counter>)
	s := letters(g.nameN)
	if g.F.Shadowing && g.R.Chance(1, 5) {
		// reuse a visible name on purpose (shadowing)
		if vs := g.visible(); len(vs) > 0 {
			return fw.Pick(g.R, vs).name
		}
	}
	return "v" + s
}

func letters(n int) string {
	s := ""
	for {
		s = string(rune('a'+n%26)) + s
		n /= 26
		if n == 0 {
			break
		}
	}
	return s
}

// counterName returns a reserved name for loop counters; counters are never declared to the
// generator, so no generated statement can read or assign them and loops terminate by construction.
func (g *Gen) counterName() string {
	g.nameN++
	return "lc" + letters(g.nameN)
}

func (g *Gen) pushScope() { g.scopes = append(g.scopes, nil) }
func (g *Gen) popScope()  { g.scopes = g.scopes[:len(g.scopes)-1] }
func (g *Gen) declare(name string, t *Type) {
	g.scopes[len(g.scopes)-1] = append(g.scopes[len(g.scopes)-1], varInfo{name, t})
}

// visible variables, innermost declaration of each name wins.
func (g *Gen) visible() []varInfo {
	seen := map[string]bool{}
	var out []varInfo
	for i := len(g.scopes) - 1; i >= 0; i-- {
		sc := g.scopes[i]
		for j := len(sc) - 1; j >= 0; j-- {
			if !seen[sc[j].name] {
				seen[sc[j].name] = true
				out = append(out, sc[j])
			}
		}
	}
	return out
}

func (g *Gen) varsOf(t *Type) []varInfo {
	var out []varInfo
	for _, v := range g.visible() {
		if v.t.Eq(t) {
			out = append(out, v)
		}
	}
	return out
}

var intPool = []int64{0, 1, -1, 2, -2, 3, 5, 7, 10, 62, 63, 64, 100, 255, 1 << 31, 1<<53 - 1, 1<<53 + 1, math.MaxInt64, math.MinInt64, math.MinInt64 + 1, -1000000007}
var floatPool = []float64{0, 0.1, 1.5, -2.25, 3.0, 1e15, 1.0 / 3.0, 100.5, -0.5, 2.0, 1e100, 5e-324, 123456.789}
var strPool = []string{"", "a", "hello", "Zoë", "x y", "tab\there", "q\"uote", "line\nbreak", "ß", "0", "日本"}

func (g *Gen) scalarTypes() []*Type {
	ts := []*Type{Int, Int, Bool}
	if g.F.Floats {
		ts = append(ts, Float)
	}
	if g.F.Strings {
		ts = append(ts, Str)
	}
	return ts
}

func (g *Gen) anyType() *Type {
	r := g.R.Intn(10)
	switch {
	case r < 6:
		return fw.Pick(g.R, g.scalarTypes())
	case r < 8 && g.F.Lists:
		return ListOf(fw.Pick(g.R, g.scalarTypes()))
	case r < 9 && g.F.Objects:
		return ObjOf(Field{"fa", Int}, Field{"fb", fw.Pick(g.R, g.scalarTypes())})
	case g.F.Options:
		return OptOf(fw.Pick(g.R, g.scalarTypes()))
	}
	return Int
}

func (g *Gen) literal(t *Type) Expr {
	switch t.K {
	case TInt:
		if g.R.Chance(1, 3) {
			return IntLit{fw.Pick(g.R, intPool)}
		}
		return IntLit{int64(g.R.Intn(21)) - 5}
	case TFloat:
		return FloatLit{fw.Pick(g.R, floatPool)}
	case TBool:
		return BoolLit{g.R.Bool()}
	case TStr:
		return StrLit{fw.Pick(g.R, strPool)}
	case TList:
		n := 1 + g.R.Intn(3)
		l := ListLit{Ty: t}
		for i := 0; i < n; i++ {
			l.Elems = append(l.Elems, g.literal(t.Elem))
		}
		return l
	case TObj:
		o := ObjLit{}
		for _, f := range t.Fields {
			o.Fields = append(o.Fields, FieldInit{f.Name, g.literal(f.T)})
		}
		return o
	case TOpt:
		return Prefix{"?", g.literal(t.Elem)}
	case TRange:
		return RangeLit{A: IntLit{int64(g.R.Intn(4))}, B: IntLit{int64(g.R.Intn(6))}, Incl: g.R.Chance(1, 3)}
	}
	panic("prog: no literal for " + t.String())
}

// pure reports whether an expression has no side effects (calls are conservatively impure).
func pure(e Expr) bool {
	switch e := e.(type) {
	case IntLit, FloatLit, BoolLit, StrLit, NoneLit, NullLit, Var:
		return true
	case Grouped:
		return pure(e.X)
	case Prefix:
		return pure(e.X)
	case Infix:
		return pure(e.L) && pure(e.R)
	case Cast:
		return pure(e.X)
	case Index:
		return pure(e.X) && pure(e.I)
	case Member:
		return pure(e.X)
	case ListLit:
		for _, x := range e.Elems {
			if !pure(x) {
				return false
			}
		}
		return true
	case ObjLit:
		for _, f := range e.Fields {
			if !pure(f.V) {
				return false
			}
		}
		return true
	case MCall:
		switch e.Name {
		case "len", "contains", "to_string", "is_some", "is_none", "unwrap_or", "to_upper", "to_lower", "join", "last":
			if !pure(e.Recv) {
				return false
			}
			for _, a := range e.Args {
				if !pure(a) {
					return false
				}
			}
			return true
		}
	}
	return false
}

// expr generates an expression of type t.
func (g *Gen) expr(t *Type, depth int) Expr {
	if depth <= 0 || g.R.Chance(1, 4) {
		if vs := g.varsOf(t); len(vs) > 0 && g.R.Chance(3, 4) {
			v := fw.Pick(g.R, vs)
			return Var{v.name, v.t}
		}
		return g.literal(t)
	}
	d := depth - 1
	switch t.K {
	case TInt:
		switch g.R.Intn(17) {
		case 16:
			if g.F.Strings {
				g.cover("str.len")
				return MCall{Recv: Grouped{g.expr(Str, d)}, Name: "len", Ret: Int}
			}
		case 0, 1, 2, 3:
			op := fw.Pick(g.R, []string{"+", "-", "*", "|", "&", "^", "+", "-"})
			g.cover("int" + op)
			return Infix{op, g.expr(Int, d), g.expr(Int, d)}
		case 4:
			op := fw.Pick(g.R, []string{"/", "%"})
			g.cover("int" + op)
			// divisor cannot be zero: (e | 1)
			return Infix{op, g.expr(Int, d), Infix{"|", g.expr(Int, d), IntLit{1}}}
		case 5:
			op := fw.Pick(g.R, []string{"<<", ">>"})
			g.cover("int" + op)
			var cnt Expr = IntLit{int64(g.R.Intn(70))}
			if g.R.Bool() {
				cnt = Infix{"&", g.expr(Int, d), IntLit{63}}
			}
			return Infix{op, g.expr(Int, d), cnt}
		case 6:
			g.cover("int-neg")
			return Prefix{fw.Pick(g.R, []string{"-", "!"}), g.expr(Int, d)}
		case 7:
			if g.F.Pow {
				g.cover("int**")
				base := fw.Pick(g.R, []int64{-3, -2, -1, 1, 2, 3, 7, 10, -10})
				exp := int64(g.R.Intn(6))
				switch g.R.Intn(6) {
				case 0:
					exp = int64(20 + g.R.Intn(45)) // exact results beyond 2^53 and wrap-around
				case 1:
					exp = -int64(1 + g.R.Intn(3))
				}
				return Infix{"**", IntLit{base}, IntLit{exp}}
			}
		case 8:
			if g.F.Casts {
				g.cover("cast->int")
				if g.F.Floats && g.R.Bool() {
					// keep the float small so that the conversion is defined
					return Cast{Infix{"/", g.smallFloat(d), FloatLit{4}}, Int}
				}
				return Cast{g.expr(Bool, d), Int}
			}
		case 9:
			if g.F.Lists {
				if vs := g.listVars(); len(vs) > 0 {
					v := fw.Pick(g.R, vs)
					g.cover("list.len")
					return MCall{Recv: Var{v.name, v.t}, Name: "len", Ret: Int}
				}
			}
		case 10:
			if g.F.Lists {
				if vs := g.varsOf(ListOf(Int)); len(vs) > 0 {
					v := fw.Pick(g.R, vs)
					g.cover("list-index")
					return g.safeIndex(Var{v.name, v.t}, d)
				}
			}
		case 11:
			if e := g.callExpr(Int, d); e != nil {
				return e
			}
		case 12:
			return g.ifExpr(Int, d)
		case 13:
			if g.F.MatchExpr {
				return g.matchExpr(Int, d)
			}
		case 14:
			if g.F.BlockExpr {
				return g.blockExpr(Int, d)
			}
		case 15:
			if e := g.fieldExpr(Int); e != nil {
				return e
			}
			if g.F.Options {
				if vs := g.varsOf(OptOf(Int)); len(vs) > 0 {
					v := fw.Pick(g.R, vs)
					g.cover("opt.unwrap_or")
					return MCall{Recv: Var{v.name, v.t}, Name: "unwrap_or", Args: []Expr{g.pureExpr(Int, d)}, Ret: Int}
				}
			}
		}
		return Infix{"+", g.expr(Int, d), g.expr(Int, d)}
	case TFloat:
		switch g.R.Intn(9) {
		case 8:
			if g.F.Pow {
				g.cover("float**")
				return Infix{"**", g.smallFloat(d), FloatLit{fw.Pick(g.R, []float64{0, 1, 2, 3, 0.5, -1, -2})}}
			}
		case 0, 1, 2:
			op := fw.Pick(g.R, []string{"+", "-", "*"})
			g.cover("float" + op)
			return Infix{op, g.expr(Float, d), g.expr(Float, d)}
		case 3:
			g.cover("float/")
			x := g.expr(Float, d)
			// divisor >= 1: e*e + 1.0 (or NaN/Inf which are not zero)
			return Infix{"/", g.expr(Float, d), Infix{"+", Infix{"*", x, x}, FloatLit{1}}}
		case 4:
			if g.F.Casts {
				g.cover("cast->float")
				return Cast{g.expr(Int, d), Float}
			}
		case 5:
			g.cover("float-neg")
			return Prefix{"-", g.expr(Float, d)}
		case 6:
			return g.ifExpr(Float, d)
		case 7:
			if e := g.callExpr(Float, d); e != nil {
				return e
			}
		}
		return Infix{"+", g.expr(Float, d), g.expr(Float, d)}
	case TBool:
		switch g.R.Intn(12) {
		case 0, 1:
			op := fw.Pick(g.R, []string{"==", "!=", "<", ">", "<=", ">="})
			g.cover("int" + op)
			return Infix{op, g.expr(Int, d), g.expr(Int, d)}
		case 2:
			if g.F.Floats {
				op := fw.Pick(g.R, []string{"==", "!=", "<", ">", "<=", ">="})
				g.cover("float" + op)
				return Infix{op, g.expr(Float, d), g.expr(Float, d)}
			}
		case 3, 4:
			op := fw.Pick(g.R, []string{"&&", "||"})
			g.cover("bool" + op)
			return Infix{op, g.expr(Bool, d), g.expr(Bool, d)}
		case 5:
			op := fw.Pick(g.R, []string{"|", "&", "^", "==", "!="})
			g.cover("bool" + op)
			return Infix{op, g.expr(Bool, d), g.expr(Bool, d)}
		case 6:
			g.cover("bool!")
			return Prefix{"!", g.expr(Bool, d)}
		case 7:
			if g.F.Strings {
				if g.R.Chance(1, 3) {
					g.cover("str.contains")
					return MCall{Recv: Grouped{g.expr(Str, d)}, Name: "contains", Args: []Expr{g.expr(Str, d)}, Ret: Bool}
				}
				op := fw.Pick(g.R, []string{"==", "!="})
				g.cover("str" + op)
				return Infix{op, g.expr(Str, d), g.expr(Str, d)}
			}
		case 8:
			if g.F.Casts {
				g.cover("cast->bool")
				return Cast{g.expr(Int, d), Bool}
			}
		case 9:
			if g.F.Lists {
				if vs := g.listVars(); len(vs) > 0 {
					v := fw.Pick(g.R, vs)
					if v.t.Elem.K != TFloat {
						g.cover("list.contains")
						return MCall{Recv: Var{v.name, v.t}, Name: "contains", Args: []Expr{g.pureExpr(v.t.Elem, d)}, Ret: Bool}
					}
				}
			}
		case 10:
			if g.F.Lists {
				if vs := g.listVars(); len(vs) > 0 {
					v := fw.Pick(g.R, vs)
					g.cover("list==")
					return Infix{"==", Var{v.name, v.t}, g.literal(v.t)}
				}
			}
		case 11:
			if e := g.callExpr(Bool, d); e != nil {
				return e
			}
			if g.F.Options {
				for _, v := range g.visible() {
					if v.t.K == TOpt {
						g.cover("opt.is_some")
						return MCall{Recv: Var{v.name, v.t}, Name: fw.Pick(g.R, []string{"is_some", "is_none"}), Ret: Bool}
					}
				}
			}
		}
		return Infix{"<", g.expr(Int, d), g.expr(Int, d)}
	case TStr:
		switch g.R.Intn(9) {
		case 0, 1:
			g.cover("str+")
			return Infix{"+", g.expr(Str, d), g.expr(Str, d)}
		case 2:
			g.cover("int.to_string")
			return MCall{Recv: Grouped{g.expr(Int, d)}, Name: "to_string", Ret: Str}
		case 3:
			g.cover("bool.to_string")
			return MCall{Recv: Grouped{g.expr(Bool, d)}, Name: "to_string", Ret: Str}
		case 4:
			g.cover("str.to_upper")
			return MCall{Recv: Grouped{g.expr(Str, d)}, Name: fw.Pick(g.R, []string{"to_upper", "to_lower"}), Ret: Str}
		case 5:
			return g.ifExpr(Str, d)
		case 6:
			if e := g.callExpr(Str, d); e != nil {
				return e
			}
		case 7:
			if g.F.Lists {
				if vs := g.listVars(); len(vs) > 0 {
					v := fw.Pick(g.R, vs)
					if v.t.Elem.K == TInt || v.t.Elem.K == TStr || v.t.Elem.K == TBool {
						g.cover("list.join")
						return MCall{Recv: Var{v.name, v.t}, Name: "join", Args: []Expr{StrLit{fw.Pick(g.R, []string{",", "", " - "})}}, Ret: Str}
					}
				}
			}
		case 8:
			g.cover("str.repeat")
			return MCall{Recv: Grouped{g.expr(Str, d)}, Name: "repeat", Args: []Expr{IntLit{int64(g.R.Intn(4))}}, Ret: Str}
		}
		return g.literal(Str)
	case TList:
		if g.R.Chance(1, 2) {
			l := ListLit{Ty: t}
			n := 1 + g.R.Intn(3)
			for i := 0; i < n; i++ {
				l.Elems = append(l.Elems, g.expr(t.Elem, d))
			}
			g.cover("list-literal")
			return l
		}
		return g.literal(t)
	case TObj:
		o := ObjLit{}
		for _, f := range t.Fields {
			o.Fields = append(o.Fields, FieldInit{f.Name, g.expr(f.T, d)})
		}
		g.cover("obj-literal")
		return o
	case TOpt:
		if g.R.Chance(1, 4) {
			g.cover("none")
			return NoneLit{t}
		}
		g.cover("some")
		return Prefix{"?", g.expr(t.Elem, d)}
	}
	return g.literal(t)
}

func (g *Gen) smallFloat(d int) Expr {
	if vs := g.varsOf(Float); len(vs) > 0 && g.R.Bool() {
		// unknown magnitude: clamp through comparison
		v := fw.Pick(g.R, vs)
		x := Var{v.name, v.t}
		return If{Cond: Infix{"&&", Infix{"<", x, FloatLit{1e9}}, Infix{">", x, FloatLit{-1e9}}}, Then: &Block{Tail: x}, Else: &Block{Tail: FloatLit{2.5}}}
	}
	return FloatLit{fw.Pick(g.R, []float64{0, 0.1, 1.5, -2.25, 3.0, 100.5, -0.5, 123456.789})}
}

func (g *Gen) pureExpr(t *Type, d int) Expr {
	for i := 0; i < 4; i++ {
		e := g.expr(t, d)
		if pure(e) {
			return e
		}
	}
	return g.literal(t)
}

func (g *Gen) listVars() []varInfo {
	var out []varInfo
	for _, v := range g.visible() {
		if v.t.K == TList {
			out = append(out, v)
		}
	}
	return out
}

// safeIndex indexes a list variable with an index that is always in range (lists never shrink
// below one element in generated programs): e % len.
func (g *Gen) safeIndex(l Var, d int) Expr {
	if g.R.Chance(1, 3) {
		return Index{l, IntLit{int64(g.R.Intn(2)) - 1}} // 0 or -1: valid for non-empty lists
	}
	return Index{l, Infix{"%", g.pureExpr(Int, d), MCall{Recv: l, Name: "len", Ret: Int}}}
}

func (g *Gen) fieldExpr(t *Type) Expr {
	if !g.F.Objects {
		return nil
	}
	for _, v := range g.visible() {
		if v.t.K == TObj {
			for _, f := range v.t.Fields {
				if f.T.Eq(t) {
					g.cover("obj-field")
					return Member{Var{v.name, v.t}, f.Name}
				}
			}
		}
	}
	return nil
}

func (g *Gen) callExpr(t *Type, d int) Expr {
	if !g.F.Funcs {
		return nil
	}
	var cands []genFn
	for _, f := range g.fns {
		if f.ret.Eq(t) {
			cands = append(cands, f)
		}
	}
	if len(cands) == 0 {
		return nil
	}
	f := fw.Pick(g.R, cands)
	c := Call{Fn: f.name, Ret: f.ret}
	for _, p := range f.params {
		if p.T == IntSmall {
			c.Args = append(c.Args, IntLit{int64(g.R.Intn(7))})
			continue
		}
		if g.F.SideEffectArgs {
			c.Args = append(c.Args, g.expr(p.T, d))
		} else {
			c.Args = append(c.Args, g.pureExpr(p.T, d))
		}
	}
	g.cover("call")
	return c
}

func (g *Gen) ifExpr(t *Type, d int) Expr {
	g.cover("if-expr")
	return If{Cond: g.expr(Bool, d), Then: &Block{Tail: g.expr(t, d)}, Else: &Block{Tail: g.expr(t, d)}}
}

func (g *Gen) matchExpr(t *Type, d int) Expr {
	g.cover("match-expr")
	m := Match{X: g.expr(Int, d), Ty: t}
	n := 1 + g.R.Intn(3)
	used := map[int64]bool{}
	for i := 0; i < n; i++ {
		var lits []Expr
		for j := 0; j <= g.R.Intn(2); j++ {
			v := int64(g.R.Intn(8)) - 2
			if used[v] {
				continue
			}
			if v < 0 && len(lits) > 0 {
				continue // the parser accepts a prefixed literal only as the sole literal of an arm
			}
			used[v] = true
			lits = append(lits, IntLit{v})
			if v < 0 {
				break
			}
		}
		if len(lits) == 0 {
			continue
		}
		m.Arms = append(m.Arms, Arm{Lits: lits, Body: g.expr(t, d)})
	}
	m.Default = g.expr(t, d)
	return m
}

func (g *Gen) blockExpr(t *Type, d int) Expr {
	g.cover("block-expr")
	g.pushScope()
	defer g.popScope()
	b := &Block{}
	n := g.R.Intn(3)
	for i := 0; i < n; i++ {
		b.Stmts = append(b.Stmts, g.simpleStmt(d))
	}
	b.Tail = g.expr(t, d)
	return b
}

// simpleStmt: let or assignment (used inside block expressions).
func (g *Gen) simpleStmt(d int) Stmt {
	if g.R.Bool() {
		return g.letStmt(d)
	}
	if s := g.assignStmt(d); s != nil {
		return s
	}
	return g.letStmt(d)
}

func (g *Gen) letStmt(d int) Stmt {
	t := g.anyType()
	e := g.expr(t, d)
	name := g.fresh()
	if len(g.scopes) > 1 && g.R.Chance(1, 8) {
		// a local named like a module global of the same type: functions called from here still
		// mean the global
		var same []varInfo
		for _, gv := range g.scopes[0] {
			if gv.t.Eq(t) {
				same = append(same, gv)
			}
		}
		if len(same) > 0 {
			name = fw.Pick(g.R, same).name
			g.cover("let-shadows-global")
		}
	}
	st := Let{Name: name, V: e}
	if g.R.Chance(1, 4) || t.K == TOpt {
		st.Annot = t
	}
	g.declare(name, t)
	g.cover("let")
	return st
}

func (g *Gen) assignStmt(d int) Stmt {
	if g.noAssign {
		return nil
	}
	vs := g.visible()
	if len(vs) == 0 {
		return nil
	}
	v := fw.Pick(g.R, vs)
	target := Var{v.name, v.t}
	switch v.t.K {
	case TInt:
		op := fw.Pick(g.R, []string{"=", "+=", "-=", "*=", "|=", "&=", "^=", "=", "/=", "%=", "<<=", ">>=", "**="})
		g.cover("assign-int" + op)
		switch op {
		case "/=", "%=":
			return ExprStmt{Assign{op, target, Infix{"|", g.expr(Int, d), IntLit{1}}}}
		case "<<=", ">>=":
			return ExprStmt{Assign{op, target, Infix{"&", g.expr(Int, d), IntLit{63}}}}
		case "**=":
			if !g.F.Pow {
				op = "+="
			} else {
				return ExprStmt{Assign{op, target, IntLit{int64(g.R.Intn(4))}}}
			}
		}
		return ExprStmt{Assign{op, target, g.expr(Int, d)}}
	case TFloat:
		op := fw.Pick(g.R, []string{"=", "+=", "-=", "*=", "/="})
		g.cover("assign-float" + op)
		if op == "/=" {
			return ExprStmt{Assign{op, target, FloatLit{fw.Pick(g.R, []float64{2, -0.5, 3, 1e10, 0.1})}}}
		}
		return ExprStmt{Assign{op, target, g.expr(Float, d)}}
	case TBool:
		g.cover("assign-bool")
		return ExprStmt{Assign{"=", target, g.expr(Bool, d)}}
	case TStr:
		op := fw.Pick(g.R, []string{"=", "+="})
		g.cover("assign-str" + op)
		return ExprStmt{Assign{op, target, g.expr(Str, d)}}
	case TList:
		switch g.R.Intn(4) {
		case 3:
			switch g.R.Intn(3) {
			case 0:
				g.cover("list.push_front")
				return ExprStmt{MCall{Recv: target, Name: "push_front", Args: []Expr{g.pureExpr(v.t.Elem, d)}, Ret: Null}}
			default:
				if g.F.Options {
					name := fw.Pick(g.R, []string{"pop", "pop_front", "last"})
					g.cover("list." + name)
					o := g.fresh()
					ot := OptOf(v.t.Elem)
					g.declare(o, ot)
					return Let{Name: o, Annot: ot, V: MCall{Recv: target, Name: name, Ret: ot}}
				}
			}
			g.cover("list.push")
			return ExprStmt{MCall{Recv: target, Name: "push", Args: []Expr{g.pureExpr(v.t.Elem, d)}, Ret: Null}}
		case 0:
			g.cover("list.push")
			return ExprStmt{MCall{Recv: target, Name: "push", Args: []Expr{g.pureExpr(v.t.Elem, d)}, Ret: Null}}
		case 1:
			g.cover("list-index-assign")
			idx := g.safeIndex(target, d).(Index)
			op := "="
			if g.F.CompoundOnPlace && v.t.Elem.K == TInt && g.R.Bool() {
				op = "+="
			}
			return ExprStmt{Assign{op, idx, g.expr(v.t.Elem, d)}}
		default:
			g.cover("list-reassign")
			return ExprStmt{Assign{"=", target, g.expr(v.t, d)}}
		}
	case TObj:
		f := fw.Pick(g.R, v.t.Fields)
		g.cover("obj-field-assign")
		return ExprStmt{Assign{"=", Member{target, f.Name}, g.expr(f.T, d)}}
	case TOpt:
		g.cover("assign-opt")
		return ExprStmt{Assign{"=", target, g.expr(v.t, d)}}
	}
	return nil
}

// trace prints a tagged line with up to three visible printable variables.
func (g *Gen) trace() Stmt {
	g.traceN++
	args := []Expr{StrLit{fmt.Sprintf("t%d", g.traceN)}}
	vs := g.visible()
	n := 0
	for _, i := range g.perm(len(vs)) {
		v := vs[i]
		if !printable(v.t) {
			continue
		}
		if v.t.K == TObj {
			for _, f := range v.t.Fields {
				args = append(args, Member{Var{v.name, v.t}, f.Name})
			}
		} else {
			args = append(args, Var{v.name, v.t})
		}
		if n++; n >= 3 {
			break
		}
	}
	return ExprStmt{Builtin{"println", args}}
}

func (g *Gen) perm(n int) []int {
	p := make([]int, n)
	for i := range p {
		p[i] = i
	}
	for i := n - 1; i > 0; i-- {
		j := g.R.Intn(i + 1)
		p[i], p[j] = p[j], p[i]
	}
	return p
}

func printable(t *Type) bool {
	switch t.K {
	case TInt, TFloat, TBool, TStr, TRange:
		return true
	case TList, TOpt:
		return printable(t.Elem) && t.Elem.K != TObj
	case TObj:
		for _, f := range t.Fields {
			if f.T.K == TObj || !printable(f.T) {
				return false
			}
		}
		return true
	}
	return false
}

// stmts generates n statements into a block (with traces).
func (g *Gen) stmts(n, d int) []Stmt {
	var out []Stmt
	for i := 0; i < n && g.budget > 0; i++ {
		g.budget--
		out = append(out, g.stmt(d)...)
		if g.R.Chance(1, 2) {
			out = append(out, g.trace())
		}
	}
	out = append(out, g.trace())
	return out
}

func (g *Gen) body(n, d int) *Block {
	g.pushScope()
	defer g.popScope()
	return &Block{Stmts: g.stmts(n, d)}
}

func (g *Gen) stmt(d int) []Stmt {
	r := g.R.Intn(20)
	switch {
	case r < 5:
		return []Stmt{g.letStmt(d)}
	case r < 9:
		if s := g.assignStmt(d); s != nil {
			return []Stmt{s}
		}
		return []Stmt{g.letStmt(d)}
	case r < 11:
		g.cover("if-stmt")
		st := If{Cond: g.expr(Bool, d), Then: g.body(1+g.R.Intn(3), d-1)}
		if g.R.Bool() {
			st.Else = g.body(1+g.R.Intn(2), d-1)
		}
		return []Stmt{ExprStmt{st}}
	case r < 14 && g.F.Loops && d > 0:
		return g.loopStmt(d)
	case r < 15 && g.F.Exceptions && d > 0:
		return g.tryStmt(d)
	case r < 16 && g.loopDepth > 0 && (g.inTry == 0 || (g.F.ExitFromTry && g.loopInTry)):
		g.cover("loop-exit")
		ex := Stmt(Break{})
		if g.R.Bool() {
			ex = Continue{}
		}
		return []Stmt{ExprStmt{If{Cond: g.expr(Bool, d), Then: &Block{Stmts: []Stmt{g.trace(), ex}}}}}
	case r < 17 && g.inFn != nil && (g.inTry == 0 || g.F.ExitFromTry) && g.R.Chance(1, 2):
		g.cover("early-return")
		return []Stmt{ExprStmt{If{Cond: g.expr(Bool, d), Then: &Block{Stmts: []Stmt{g.trace(), Return{g.expr(g.inFn.ret, d)}}}}}}
	case r < 18 && g.F.MatchExpr:
		g.cover("match-stmt")
		m := g.matchExpr(Int, d).(Match)
		return []Stmt{Let{Name: g.declFresh(Int), V: m}}
	case r < 19 && g.F.NullLiteral && g.R.Chance(1, 4):
		return g.nullStmts(d)
	case r < 19 && g.F.Lists && g.F.Funcs && g.R.Chance(1, 5):
		return g.anyObjStmts(d)
	case r < 19 && g.F.DigitNames && g.R.Chance(1, 10):
		return g.declBurst()
	case r < 19 && g.F.Lists && g.R.Chance(1, 3):
		if st := g.nestedListStmts(d); st != nil {
			return st
		}
	case r < 19 && g.F.Loops && d > 0 && g.R.Chance(1, 3):
		return g.rangeVarStmts(d)
	case r < 19 && g.hasTrigger && g.R.Chance(1, 2):
		g.cover("trigger-stmt")
		return []Stmt{Trigger{Callback: "cb", Conn: "at", Name: "minute", Args: []Expr{g.pureExpr(Int, d)}}}
	case r < 19 && g.F.Closures && g.R.Chance(1, 2):
		return g.closureStmts(d)
	case r < 19 && g.F.Funcs:
		if e := g.callExpr(fw.Pick(g.R, g.scalarTypes()), d); e != nil {
			name := g.fresh()
			g.declare(name, e.T())
			return []Stmt{Let{Name: name, V: e}}
		}
	}
	return []Stmt{g.letStmt(d)}
}

// declBurst: a name declared many times in one function next to a live variable whose name is that
// name followed by digits (`a1` and eleven or more `a`): the compiler tells declarations of one
// name apart by a running number, so name and number must stay separable in whatever it derives.
func (g *Gen) declBurst() []Stmt {
	g.cover("decl-burst")
	base := fw.Pick(g.R, baseNames)
	digit := 1 + g.R.Intn(2)
	look := fmt.Sprintf("%s%d", base, digit)
	g.declare(look, Int)
	out := []Stmt{Let{Name: look, V: IntLit{int64(1000 + g.R.Intn(1000))}}}
	n := 10*digit + 1 + g.R.Intn(3)
	for i := 0; i < n; i++ {
		out = append(out, ExprStmt{&Block{Stmts: []Stmt{Let{Name: base, V: IntLit{int64(i)}}}}})
	}
	return append(out, ExprStmt{Builtin{"println", []Expr{StrLit{"burst"}, Var{look, Int}}}})
}

// anyObjStmts: a function that builds a fresh any-object from one literal site, fills it and reports
// its keys, called twice (every evaluation of `new { ? }` is a new, empty object).
func (g *Gen) anyObjStmts(d int) []Stmt {
	g.cover("anyobj-literal-twice")
	fn := "fresh_any_object"
	if !g.anyObjFn {
		g.anyObjFn = true
		o := Var{"o", AnyOb}
		g.extraFuncs = append(g.extraFuncs, &Func{Name: fn, Params: []Param{{Name: "k", T: Str}, {Name: "v", T: Int}}, Ret: ListOf(Str), Body: &Block{
			Stmts: []Stmt{Let{Name: "o", V: AnyObjLit{}}, ExprStmt{MCall{Recv: o, Name: "set", Args: []Expr{Var{"k", Str}, Var{"v", Int}}, Ret: Null}}},
			Tail:  MCall{Recv: o, Name: "keys", Ret: ListOf(Str)}}})
	}
	var out []Stmt
	for i := 0; i < 2; i++ {
		arg := g.pureExpr(Int, d-1)
		name := g.fresh()
		g.declare(name, ListOf(Str))
		out = append(out, Let{Name: name, V: Call{Fn: fn, Args: []Expr{StrLit{fw.Pick(g.R, []string{"a", "b", "key", "Zoë"}) + fmt.Sprint(i)}, arg}, Ret: ListOf(Str)}})
	}
	return out
}

// nullStmts: expressions of type null in statement and initialiser position (each must leave the
// operand stack as it found it, however often it runs).
func (g *Gen) nullStmts(d int) []Stmt {
	g.cover("null-value")
	switch g.R.Intn(6) {
	case 0:
		return []Stmt{ExprStmt{NullLit{}}}
	case 1:
		name := g.fresh()
		g.declare(name, Null)
		return []Stmt{Let{Name: name, V: NullLit{}}, ExprStmt{Var{name, Null}}}
	case 2:
		return []Stmt{ExprStmt{&Block{Stmts: []Stmt{g.trace()}, Tail: NullLit{}}}}
	case 3:
		return []Stmt{ExprStmt{If{Cond: g.expr(Bool, d), Then: &Block{Tail: NullLit{}}, Else: &Block{Stmts: []Stmt{g.trace()}, Tail: NullLit{}}}}}
	case 4:
		if vs := g.varsOf(ListOf(Int)); len(vs) > 0 && g.F.Lists {
			name := g.fresh()
			g.declare(name, Null)
			return []Stmt{Let{Name: name, V: MCall{Recv: Var{fw.Pick(g.R, vs).name, ListOf(Int)}, Name: "push", Args: []Expr{g.pureExpr(Int, d)}, Ret: Null}}}
		}
	}
	name := g.fresh()
	g.declare(name, Null)
	return []Stmt{Let{Name: name, V: If{Cond: g.expr(Bool, d), Then: &Block{Stmts: []Stmt{g.trace()}}}}}
}

// nestedListStmts: a list literal built from existing list variables (aliases), one alias mutated
// in place, both printed by the following trace.
func (g *Gen) nestedListStmts(d int) []Stmt {
	vs := g.varsOf(ListOf(Int))
	if len(vs) == 0 {
		return nil
	}
	g.cover("nested-list-alias")
	a := fw.Pick(g.R, vs)
	b := fw.Pick(g.R, vs)
	lt := ListOf(ListOf(Int))
	g.nameN++
	m := "nl" + letters(g.nameN) // never shadows the aliases it is built from
	g.declare(m, lt)
	av, mv := Var{a.name, a.t}, Var{m, lt}
	out := []Stmt{Let{Name: m, V: ListLit{Elems: []Expr{av, Var{b.name, b.t}}, Ty: lt}}}
	switch g.R.Intn(3) {
	case 0:
		out = append(out, ExprStmt{MCall{Recv: av, Name: "push", Args: []Expr{g.pureExpr(Int, d-1)}, Ret: Null}})
	case 1:
		out = append(out, ExprStmt{Assign{"=", Index{Index{mv, IntLit{int64(g.R.Intn(2))}}, IntLit{0}}, g.pureExpr(Int, d-1)}})
	default:
		out = append(out, ExprStmt{MCall{Recv: Index{mv, IntLit{-1}}, Name: "push", Args: []Expr{g.pureExpr(Int, d-1)}, Ret: Null}})
	}
	out = append(out, ExprStmt{Builtin{"println", []Expr{StrLit{"nl"}, mv, av, Var{b.name, b.t}}}})
	if g.F.Loops && g.R.Chance(1, 2) {
		// iterate a list reached through an index expression twice, leaving the first loop early
		g.cover("for-over-place")
		place := Index{mv, IntLit{int64(g.R.Intn(2))}}
		for pass := 0; pass < 2; pass++ {
			g.nameN++
			x := "fp" + letters(g.nameN)
			body := &Block{}
			if pass == 0 {
				body.Stmts = append(body.Stmts, ExprStmt{If{Cond: Infix{"==", Var{x, Int}, Index{place, IntLit{0}}}, Then: &Block{Stmts: []Stmt{Break{}}}}})
			}
			body.Stmts = append(body.Stmts, ExprStmt{Builtin{"println", []Expr{StrLit{"fp"}, Var{x, Int}}}})
			out = append(out, For{Name: x, Iter: place, Body: body})
		}
	}
	if g.F.Loops && g.R.Chance(1, 2) {
		// a loop whose variable is a list / an option of a list / an object: changing it in place
		// changes neither the list that is iterated nor the values its elements alias
		g.cover("for-elem-mutate")
		g.nameN++
		z := "fz" + letters(g.nameN)
		li := ListOf(Int)
		bv := Var{b.name, b.t}
		switch g.R.Intn(3) {
		case 0:
			zv := Var{z, li}
			body := &Block{Stmts: []Stmt{
				ExprStmt{MCall{Recv: zv, Name: "push", Args: []Expr{g.pureExpr(Int, d-1)}, Ret: Null}},
				ExprStmt{Assign{"=", Index{zv, IntLit{0}}, g.pureExpr(Int, d-1)}},
				ExprStmt{Builtin{"println", []Expr{StrLit{"fz"}, zv}}}}}
			out = append(out, For{Name: z, Iter: mv, Body: body}, ExprStmt{Builtin{"println", []Expr{StrLit{"nz"}, mv, av, bv}}})
		case 1:
			ot := ListOf(OptOf(li))
			g.nameN++
			ol := "ol" + letters(g.nameN)
			zv := Var{z, OptOf(li)}
			inner := MCall{Recv: zv, Name: "unwrap", Ret: li}
			body := &Block{Stmts: []Stmt{
				ExprStmt{MCall{Recv: inner, Name: "push", Args: []Expr{g.pureExpr(Int, d-1)}, Ret: Null}},
				ExprStmt{Builtin{"println", []Expr{StrLit{"fo"}, zv}}}}}
			out = append(out, Let{Name: ol, V: ListLit{Elems: []Expr{Prefix{"?", av}, Prefix{"?", bv}}, Ty: ot}},
				For{Name: z, Iter: Var{ol, ot}, Body: body},
				ExprStmt{Builtin{"println", []Expr{StrLit{"no"}, Var{ol, ot}, av, bv}}})
		default:
			objT := ObjOf(Field{"n", Int}, Field{"l", li})
			ot := ListOf(objT)
			g.nameN++
			ol := "ob" + letters(g.nameN)
			zv := Var{z, objT}
			body := &Block{Stmts: []Stmt{
				ExprStmt{Assign{"+=", Member{zv, "n"}, g.pureExpr(Int, d-1)}},
				ExprStmt{MCall{Recv: Member{zv, "l"}, Name: "push", Args: []Expr{g.pureExpr(Int, d-1)}, Ret: Null}},
				ExprStmt{Builtin{"println", []Expr{StrLit{"fb"}, Member{zv, "n"}, Member{zv, "l"}}}}}}
			out = append(out, Let{Name: ol, V: ListLit{Elems: []Expr{ObjLit{[]FieldInit{{"n", IntLit{1}}, {"l", av}}}, ObjLit{[]FieldInit{{"n", IntLit{2}}, {"l", bv}}}}, Ty: ot}},
				For{Name: z, Iter: Var{ol, ot}, Body: body},
				ExprStmt{Builtin{"println", []Expr{StrLit{"nb"}, Member{Index{Var{ol, ot}, IntLit{0}}, "n"}, Member{Index{Var{ol, ot}, IntLit{1}}, "l"}, av, bv}}})
		}
	}
	return out
}

// rangeVarStmts: a range kept in a variable, iterated, left early, and iterated again.
func (g *Gen) rangeVarStmts(d int) []Stmt {
	g.cover("range-var")
	g.nameN++
	rv := "rg" + letters(g.nameN)
	lo := int64(g.R.Intn(3))
	hi := lo + 2 + int64(g.R.Intn(4))
	incl := g.R.Chance(1, 3)
	if g.R.Chance(1, 3) {
		lo, hi = hi, lo // descending
	}
	g.declare(rv, Range)
	rvar := Var{rv, Range}
	out := []Stmt{Let{Name: rv, V: RangeLit{A: IntLit{lo}, B: IntLit{hi}, Incl: incl}}}
	g.loopDepth++
	for pass := 0; pass < 2; pass++ {
		i := g.fresh()
		g.pushScope()
		g.declare(i, Int)
		body := &Block{}
		if pass == 0 && g.R.Chance(2, 3) {
			body.Stmts = append(body.Stmts, ExprStmt{If{Cond: Infix{"==", Var{i, Int}, IntLit{lo + 1}}, Then: &Block{Stmts: []Stmt{Break{}}}}})
		}
		body.Stmts = append(body.Stmts, g.stmts(1, d-1)...)
		g.popScope()
		out = append(out, For{Name: i, Iter: rvar, Body: body})
	}
	g.loopDepth--
	return out
}

// closureStmts: a non-capturing function literal bound to a local and called.
func (g *Gen) closureStmts(d int) []Stmt {
	g.cover("closure")
	g.closureN++
	name := fmt.Sprintf("cl%s", letters(g.closureN+g.nameN))
	pt := fw.Pick(g.R, g.scalarTypes())
	rt := fw.Pick(g.R, g.scalarTypes())
	saved := g.scopes
	savedFn, savedLoop, savedTry := g.inFn, g.loopDepth, g.inTry
	// closure bodies see module globals and their parameter; with ClosureCapture also the scalar
	// locals of the creating function (read only: the closure is called at once, see below)
	// (a global shadowed by a local of the creating function would be that local inside the literal)
	shadowed := map[string]bool{}
	for _, sc := range saved[1:] {
		for _, v := range sc {
			shadowed[v.name] = true
		}
	}
	var globals []varInfo
	for _, v := range saved[0] {
		if !shadowed[v.name] {
			globals = append(globals, v)
		}
	}
	g.scopes = [][]varInfo{globals, {{"q", pt}}}
	if g.F.ClosureCapture && g.R.Chance(2, 3) {
		var captured []varInfo
		for _, sc := range saved[1:] {
			for _, v := range sc {
				if v.name != "q" && (v.t.K == TInt || v.t.K == TFloat || v.t.K == TBool || v.t.K == TStr) {
					captured = append(captured, v)
				}
			}
		}
		if len(captured) > 0 {
			g.cover("closure-capture")
			g.scopes = [][]varInfo{globals, captured, {{"q", pt}}}
			g.noAssign = true
		}
	}
	gf := genFn{name: name, ret: rt}
	g.inFn, g.loopDepth, g.inTry = &gf, 0, 0
	body := &Block{}
	if g.R.Chance(1, 2) {
		// a closure body with statements and a return of its own: whatever the creating function
		// has open where the literal stands (try blocks, loops) is not the closure's to leave
		g.cover("closure-return")
		body.Stmts = append(body.Stmts, ExprStmt{If{Cond: g.expr(Bool, d-1), Then: &Block{Stmts: []Stmt{Return{g.expr(rt, d-1)}}}}})
	}
	body.Tail = g.expr(rt, d-1)
	g.noAssign = false
	g.inFn, g.loopDepth, g.inTry = savedFn, savedLoop, savedTry
	g.scopes = saved
	lit := FnLit{Params: []Param{{Name: "q", T: pt}}, Ret: rt, Body: body}
	arg := g.pureExpr(pt, d-1)
	res := g.fresh()
	g.declare(res, rt)
	call := Call{Fn: name, Args: []Expr{arg}, Ret: rt}
	if g.R.Bool() {
		// the closure is called by another function with one of that function's locals as argument
		g.cover("closure-passed")
		ap := fmt.Sprintf("ap%s", letters(g.closureN))
		ft := lit.T()
		g.extraFuncs = append(g.extraFuncs, &Func{Name: ap, Params: []Param{{Name: "f", T: ft}, {Name: "z", T: pt}}, Ret: rt, Body: &Block{
			Stmts: []Stmt{Let{Name: "loc", V: Var{"z", pt}}},
			Tail:  Call{Fn: "f", Args: []Expr{Var{"loc", pt}}, Ret: rt}}})
		call = Call{Fn: ap, Args: []Expr{Var{name, ft}, arg}, Ret: rt}
	}
	return []Stmt{Let{Name: name, V: lit}, Let{Name: res, V: call}}
}

func (g *Gen) declFresh(t *Type) string {
	n := g.fresh()
	g.declare(n, t)
	return n
}

func (g *Gen) loopStmt(d int) []Stmt {
	g.loopDepth++
	savedLIT := g.loopInTry
	g.loopInTry = false
	defer func() { g.loopDepth--; g.loopInTry = savedLIT }()
	k := int64(1 + g.R.Intn(4))
	switch g.R.Intn(4) {
	case 0: // while with counter
		g.cover("while")
		c := g.counterName()
		cv := Var{c, Int}
		g.pushScope()
		body := &Block{Stmts: []Stmt{ExprStmt{Assign{"+=", cv, IntLit{1}}}}}
		body.Stmts = append(body.Stmts, g.stmts(1+g.R.Intn(3), d-1)...)
		g.popScope()
		// the counter must not be assigned by the body: rename protection through a guard
		return []Stmt{Let{Name: c, V: IntLit{0}}, While{Cond: Infix{"<", cv, IntLit{k}}, Body: body}}
	case 1: // loop with break
		g.cover("loop")
		c := g.counterName()
		cv := Var{c, Int}
		g.pushScope()
		body := &Block{Stmts: []Stmt{ExprStmt{Assign{"+=", cv, IntLit{1}}}, ExprStmt{If{Cond: Infix{">", cv, IntLit{k}}, Then: &Block{Stmts: []Stmt{Break{}}}}}}}
		body.Stmts = append(body.Stmts, g.stmts(1+g.R.Intn(3), d-1)...)
		g.popScope()
		return []Stmt{Let{Name: c, V: IntLit{0}}, Loop{Body: body}}
	case 2: // for over range
		g.cover("for-range")
		i := g.fresh()
		g.pushScope()
		g.declare(i, Int)
		body := &Block{Stmts: g.stmts(1+g.R.Intn(3), d-1)}
		g.popScope()
		a := int64(g.R.Intn(3)) - int64(g.R.Intn(2))*3
		lo, hi, incl := a, a+k, g.R.Chance(1, 3)
		switch g.R.Intn(6) {
		case 0, 1: // descending
			g.cover("for-range-desc")
			lo, hi = hi, lo
		case 2: // a single value or nothing: a..=a / a..a
			g.cover("for-range-point")
			hi = lo
		}
		return []Stmt{For{Name: i, Iter: RangeLit{A: IntLit{lo}, B: IntLit{hi}, Incl: incl}, Body: body}}
	default: // for over list
		if !g.F.Lists {
			return []Stmt{g.letStmt(d)}
		}
		g.cover("for-list")
		var iter Expr
		var et *Type
		if vs := g.listVars(); len(vs) > 0 && g.R.Bool() {
			v := fw.Pick(g.R, vs)
			iter, et = Var{v.name, v.t}, v.t.Elem
		} else {
			t := ListOf(fw.Pick(g.R, g.scalarTypes()))
			iter, et = g.literal(t), t.Elem
		}
		x := g.fresh()
		g.pushScope()
		g.declare(x, et)
		body := &Block{Stmts: g.stmts(1+g.R.Intn(3), d-1)}
		g.popScope()
		return []Stmt{For{Name: x, Iter: iter, Body: body}}
	}
}

func (g *Gen) tryStmt(d int) []Stmt {
	g.cover("try")
	g.inTry++
	savedLIT := g.loopInTry
	g.loopInTry = g.loopDepth > 0
	g.pushScope()
	body := &Block{}
	body.Stmts = append(body.Stmts, g.stmts(1+g.R.Intn(2), d-1)...)
	if g.F.Closures && d > 1 && g.R.Chance(1, 3) {
		// a function literal written and called inside the try block, before the statement that may
		// throw: what the literal's body does (return, its own try) must not touch this handler
		g.cover("closure-in-try")
		body.Stmts = append(body.Stmts, g.closureStmts(d-1)...)
	}
	msg := fmt.Sprintf("boom%d", g.R.Intn(100))
	var thrower Stmt = ExprStmt{If{Cond: g.expr(Bool, d-1), Then: &Block{Stmts: []Stmt{ExprStmt{Builtin{"throw", []Expr{StrLit{msg}}}}}}}}
	if g.R.Chance(1, 4) {
		thrower = ExprStmt{Builtin{"throw", []Expr{g.pureExpr(fw.Pick(g.R, []*Type{Int, Str, Bool}), d-1)}}}
		g.cover("throw-always")
	}
	if g.F.ExcAcrossCalls && g.thrower != "" && g.R.Chance(1, 2) {
		// the exception is raised one or two frames below the handler
		g.cover("throw-across-call")
		arg := g.pureExpr(Int, d-1)
		v := g.declFresh(Int)
		thrower = Let{Name: v, V: Call{Fn: g.thrower, Args: []Expr{arg}, Ret: Int}}
	}
	body.Stmts = append(body.Stmts, thrower)
	if es, isES := thrower.(ExprStmt); !isES || func() bool { _, always := es.X.(Builtin); return !always }() {
		body.Stmts = append(body.Stmts, g.stmts(1, d-1)...)
	}
	g.popScope()
	g.inTry--
	g.loopInTry = savedLIT
	// The catch variable may shadow a visible variable on purpose. Inside the handler it is
	// declared with an opaque type so that no generated expression reads or assigns it (its
	// line/column fields are not predicted by the model).
	e := g.fresh()
	g.pushScope()
	g.declare(e, catchObj)
	h := &Block{Stmts: []Stmt{ExprStmt{Builtin{"println", []Expr{StrLit{"caught"}, Member{Var{e, ObjOf(Field{"message", Str})}, "message"}}}}}}
	h.Stmts = append(h.Stmts, g.stmts(g.R.Intn(2), d-1)...)
	g.popScope()
	return []Stmt{ExprStmt{Try{Body: body, Name: e, Handler: h}}}
}

// Program generates a whole single-module program.
func (g *Gen) Program(size int) *Program {
	g.Cover = map[string]bool{}
	g.extraFuncs = nil
	g.anyObjFn = false
	mod := &Module{Name: "main"}
	g.scopes = [][]varInfo{nil}
	g.budget = size
	depth := 3
	if g.F.Globals {
		n := g.R.Intn(3)
		for i := 0; i < n; i++ {
			t := fw.Pick(g.R, g.scalarTypes())
			name := fmt.Sprintf("g%s", string(rune('a'+i)))
			mod.Globals = append(mod.Globals, Global{Name: name, V: g.literal(t)})
			g.declare(name, t)
			g.cover("global")
		}
	}
	if g.F.Singletons && g.R.Chance(1, 4) {
		g.cover("singleton")
		mod.Singletons = append(mod.Singletons, Singleton{Name: "$S", T: Int})
		// a function extracting the singleton; callers do not pass it
		body := &Block{Stmts: []Stmt{ExprStmt{Builtin{"println", []Expr{StrLit{"sget"}, Var{"sv", Int}, Var{"k", Int}}}}}, Tail: Infix{"+", Var{"sv", Int}, Var{"k", Int}}}
		mod.Funcs = append(mod.Funcs, &Func{Name: "sget", Params: []Param{{Name: "sv", T: Int, Singleton: "$S"}, {Name: "k", T: Int}}, Ret: Int, Body: body})
		g.fns = append(g.fns, genFn{name: "sget", params: []Param{{Name: "k", T: Int}}, ret: Int})
	}
	if g.F.Triggers && g.R.Chance(1, 5) {
		g.cover("trigger")
		mod.Imports = append(mod.Imports, Import{Items: []string{"trigger minute"}, Module: "triggers"})
		mod.Funcs = append(mod.Funcs, &Func{Name: "cb", Event: true, Params: []Param{{Name: "elapsed", T: Int}}, Ret: Null, Body: &Block{}})
		g.hasTrigger = true
	}
	if g.F.ExcAcrossCalls && g.F.Exceptions && g.R.Chance(1, 2) {
		g.cover("thrower-fn")
		x := Var{"x", Int}
		thr := &Func{Name: "thr", Params: []Param{{Name: "x", T: Int}}, Ret: Int, Body: &Block{
			Stmts: []Stmt{ExprStmt{If{Cond: Infix{"==", Infix{"%", x, IntLit{3}}, IntLit{0}}, Then: &Block{Stmts: []Stmt{ExprStmt{Builtin{"throw", []Expr{Infix{"+", StrLit{"thr"}, MCall{Recv: x, Name: "to_string", Ret: Str}}}}}}}}}},
			Tail:  Infix{"+", x, IntLit{1}}}}
		mod.Funcs = append(mod.Funcs, thr)
		g.thrower = "thr"
		if g.R.Bool() {
			loc := Var{"y", Int}
			thr2 := &Func{Name: "thrb", Params: []Param{{Name: "x", T: Int}}, Ret: Int, Body: &Block{
				Stmts: []Stmt{Let{Name: "y", V: Infix{"*", x, IntLit{2}}}, Let{Name: "z", V: Call{Fn: "thr", Args: []Expr{loc}, Ret: Int}}},
				Tail:  Infix{"-", Var{"z", Int}, loc}}}
			mod.Funcs = append(mod.Funcs, thr2)
			g.thrower = "thrb"
		}
	}
	if g.F.Funcs {
		nf := g.R.Intn(4)
		for i := 0; i < nf; i++ {
			name := fmt.Sprintf("f%s", string(rune('a'+i)))
			if g.R.Chance(1, 3) {
				// long identifiers: anything that renders function names (stack traces of fatal
				// errors, diagnostics) meets names wider than its columns
				g.cover("long-fn-name")
				name = fmt.Sprintf("compute_weighted_average_of_readings_%s", string(rune('a'+i)))
			}
			mod.Funcs = append(mod.Funcs, g.function(name, depth))
		}
		if g.F.Recursion && g.R.Chance(1, 3) {
			name := "rec"
			if g.R.Chance(1, 3) {
				name = "recursive_descent_into_the_list"
			}
			mod.Funcs = append(mod.Funcs, g.recFunction(name))
		}
	}
	g.inFn = nil
	g.pushScope()
	main := &Func{Name: "main", Ret: Null, Body: &Block{}}
	main.Body.Stmts = g.stmts(3+g.R.Intn(size/2+1), depth)
	if g.F.IntendedFatal && g.R.Chance(1, 6) {
		main.Body.Stmts = append(main.Body.Stmts, g.fatalStmt())
		main.Body.Stmts = append(main.Body.Stmts, ExprStmt{Builtin{"println", []Expr{StrLit{"unreachable"}}}})
	}
	g.popScope()
	mod.Funcs = append(mod.Funcs, g.extraFuncs...)
	mod.Funcs = append(mod.Funcs, main)
	return &Program{Modules: []*Module{mod}, Entry: "main"}
}

func (g *Gen) fatalStmt() Stmt {
	switch g.R.Intn(6) {
	case 4, 5:
		// the fatal error is raised two frames deep inside functions with long names (the stack trace
		// of the error names every frame)
		g.cover("fatal-in-long-named-fn")
		inner, outer := "raise_the_fatal_error_in_a_function_with_a_long_name", "relay_to_the_failing_function"
		k := Var{"k", Int}
		var fail Expr = Infix{"/", IntLit{7}, k}
		if g.R.Bool() {
			fail = &Block{Stmts: []Stmt{ExprStmt{Builtin{"throw", []Expr{StrLit{"deep"}}}}}, Tail: k}
		}
		g.extraFuncs = append(g.extraFuncs,
			&Func{Name: inner, Params: []Param{{Name: "k", T: Int}}, Ret: Int, Body: &Block{Tail: fail}},
			&Func{Name: outer, Params: []Param{{Name: "k", T: Int}}, Ret: Int, Body: &Block{Tail: Infix{"+", IntLit{1}, Call{Fn: inner, Args: []Expr{k}, Ret: Int}}}})
		return ExprStmt{Builtin{"println", []Expr{Call{Fn: outer, Args: []Expr{IntLit{0}}, Ret: Int}}}}
	case 0:
		g.cover("fatal-div0")
		z := g.declFresh(Int)
		return ExprStmt{&Block{Stmts: []Stmt{Let{Name: z, V: IntLit{0}}, ExprStmt{Builtin{"println", []Expr{Infix{"/", IntLit{7}, Var{z, Int}}}}}}}}
	case 1:
		g.cover("fatal-index")
		l := g.declFresh(ListOf(Int))
		return ExprStmt{&Block{Stmts: []Stmt{Let{Name: l, V: ListLit{Elems: []Expr{IntLit{1}, IntLit{2}}, Ty: ListOf(Int)}}, ExprStmt{Builtin{"println", []Expr{Index{Var{l, ListOf(Int)}, IntLit{int64(2 + g.R.Intn(3))}}}}}}}}
	case 2:
		g.cover("fatal-uncaught-throw")
		return ExprStmt{Builtin{"throw", []Expr{StrLit{fmt.Sprintf("fatal%d", g.R.Intn(50))}}}}
	default:
		g.cover("fatal-fdiv0")
		if !g.F.Floats {
			return ExprStmt{Builtin{"throw", []Expr{IntLit{42}}}}
		}
		z := g.declFresh(Float)
		return ExprStmt{&Block{Stmts: []Stmt{Let{Name: z, V: FloatLit{0}}, ExprStmt{Builtin{"println", []Expr{Infix{"/", FloatLit{1.5}, Var{z, Float}}}}}}}}
	}
}

func (g *Gen) function(name string, depth int) *Func {
	np := g.R.Intn(4)
	f := &Func{Name: name}
	saved := g.scopes
	// function bodies see module globals only
	g.scopes = [][]varInfo{saved[0], nil}
	gf := genFn{name: name}
	for i := 0; i < np; i++ {
		t := g.anyType()
		if t.K == TOpt {
			t = Int
		}
		p := Param{Name: fmt.Sprintf("p%s", string(rune('a'+i))), T: t}
		f.Params = append(f.Params, p)
		g.declare(p.Name, t)
	}
	gf.params = f.Params
	gf.ret = fw.Pick(g.R, g.scalarTypes())
	f.Ret = gf.ret
	g.inFn = &gf
	savedBudget := g.budget
	g.budget = 6
	loopSaved := g.loopDepth
	g.loopDepth = 0
	f.Body = &Block{Stmts: g.stmts(1+g.R.Intn(4), depth-1)}
	f.Body.Tail = g.expr(gf.ret, depth-1)
	g.loopDepth = loopSaved
	g.budget = savedBudget
	g.inFn = nil
	g.scopes = saved
	g.fns = append(g.fns, gf)
	g.cover("fn")
	return f
}

func (g *Gen) recFunction(name string) *Func {
	g.cover("recursion")
	n, acc := Var{"n", Int}, Var{"acc", Int}
	f := &Func{Name: name, Params: []Param{{Name: "n", T: Int}, {Name: "acc", T: Int}}, Ret: Int}
	step := Infix{fw.Pick(g.R, []string{"+", "*", "^", "-"}), acc, Infix{"+", n, IntLit{int64(g.R.Intn(5))}}}
	f.Body = &Block{Tail: If{Cond: Infix{"<=", n, IntLit{0}}, Then: &Block{Tail: acc}, Else: &Block{Tail: Call{Fn: name, Args: []Expr{Infix{"-", n, IntLit{1}}, step}, Ret: Int}}}}
	g.fns = append(g.fns, genFn{name: name, params: []Param{{Name: "n", T: IntSmall}, {Name: "acc", T: Int}}, ret: Int})
	return f
}

// catchObj is the opaque type of catch variables.
var catchObj = &Type{K: TAnyObj}

// IntSmall marks parameters that must receive small non-negative literals (recursion fuel).
var IntSmall = &Type{K: TInt}
