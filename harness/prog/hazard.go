package prog

// Static hazard analysis of generated programs: finds constructs that known findings make
// unreliable, so that the supervisor can tag the case (a failure of a tagged case may be absorbed
// by the matching open finding; untagged cases are never absorbed).

// Children returns the direct sub-expressions of e in evaluation order, and its blocks.
func Children(e Expr) (subs []Expr, blocks []*Block) {
	switch e := e.(type) {
	case Grouped:
		subs = []Expr{e.X}
	case ListLit:
		subs = e.Elems
	case ObjLit:
		for _, f := range e.Fields {
			subs = append(subs, f.V)
		}
	case RangeLit:
		subs = []Expr{e.A, e.B}
	case Prefix:
		subs = []Expr{e.X}
	case Infix:
		subs = []Expr{e.L, e.R}
	case Assign:
		subs = []Expr{e.Target, e.V}
	case Call:
		subs = e.Args
	case Builtin:
		subs = e.Args
	case MCall:
		subs = append([]Expr{e.Recv}, e.Args...)
	case Index:
		subs = []Expr{e.X, e.I}
	case Member:
		subs = []Expr{e.X}
	case Cast:
		subs = []Expr{e.X}
	case *Block:
		blocks = []*Block{e}
	case If:
		subs = []Expr{e.Cond}
		blocks = []*Block{e.Then}
		if e.Else != nil {
			blocks = append(blocks, e.Else)
		}
	case Match:
		subs = []Expr{e.X}
		for _, a := range e.Arms {
			subs = append(subs, a.Lits...)
			subs = append(subs, a.Body)
		}
		if e.Default != nil {
			subs = append(subs, e.Default)
		}
	case Try:
		blocks = []*Block{e.Body, e.Handler}
	case FnLit:
		blocks = []*Block{e.Body}
	}
	return
}

// WalkExpr visits e and everything below it (pre-order).
func WalkExpr(e Expr, f func(Expr)) {
	if e == nil {
		return
	}
	f(e)
	subs, blocks := Children(e)
	for _, s := range subs {
		WalkExpr(s, f)
	}
	for _, b := range blocks {
		WalkBlock(b, f)
	}
}

// WalkBlock visits all expressions of a block.
func WalkBlock(b *Block, f func(Expr)) {
	if b == nil {
		return
	}
	for _, s := range b.Stmts {
		WalkStmt(s, f)
	}
	if b.Tail != nil {
		WalkExpr(b.Tail, f)
	}
}

// WalkStmt visits all expressions of a statement.
func WalkStmt(s Stmt, f func(Expr)) {
	switch s := s.(type) {
	case Let:
		WalkExpr(s.V, f)
	case ExprStmt:
		WalkExpr(s.X, f)
	case Return:
		WalkExpr(s.V, f)
	case Loop:
		WalkBlock(s.Body, f)
	case While:
		WalkExpr(s.Cond, f)
		WalkBlock(s.Body, f)
	case For:
		WalkExpr(s.Iter, f)
		WalkBlock(s.Body, f)
	case Trigger:
		for _, a := range s.Args {
			WalkExpr(a, f)
		}
	}
}

// WalkProgram visits every expression of the program.
func WalkProgram(p *Program, f func(Expr)) {
	for _, m := range p.Modules {
		for _, g := range m.Globals {
			WalkExpr(g.V, f)
		}
		for _, fn := range m.Funcs {
			WalkBlock(fn.Body, f)
		}
	}
}

// yieldsPlace: the value of e is (on the VM) a reference to a list element / object field cell.
func yieldsPlace(e Expr) bool {
	switch e := e.(type) {
	case Index, Member:
		return true
	case Grouped:
		return yieldsPlace(e.X)
	case *Block:
		return e.Tail != nil && yieldsPlace(e.Tail)
	case If:
		return (e.Then.Tail != nil && yieldsPlace(e.Then.Tail)) || (e.Else != nil && e.Else.Tail != nil && yieldsPlace(e.Else.Tail))
	case Match:
		for _, a := range e.Arms {
			if yieldsPlace(a.Body) {
				return true
			}
		}
		return e.Default != nil && yieldsPlace(e.Default)
	case Try:
		return yieldsPlace(e.Body) || yieldsPlace(e.Handler)
	}
	return false
}

// mayMutatePlace: evaluating e may assign to a list element / object field in place.
func mayMutatePlace(e Expr) bool {
	found := false
	WalkExpr(e, func(x Expr) {
		switch x := x.(type) {
		case Assign:
			switch x.Target.(type) {
			case Index, Member:
				found = true
			}
		case Call:
			for _, a := range x.Args {
				if a.T().IsHeap() {
					found = true
				}
			}
		}
	})
	return found
}

// Hazards returns the hazard tags of a program (sorted, unique).
func Hazards(p *Program) []string {
	tags := map[string]bool{}
	// function literals that read variables of the function which creates them
	top := map[string]bool{}
	for _, m := range p.Modules {
		for _, g := range m.Globals {
			top[g.Name] = true
		}
		for _, f := range m.Funcs {
			top[f.Name] = true
		}
		for _, s := range m.Singletons {
			top[s.Name] = true
		}
	}
	// locals: names the function around a literal declares itself (parameters, lets, loop and catch
	// variables): inside the literal such a name is the function's variable even if a global of the
	// same name exists (over-approximated: declared anywhere in the function)
	locals := map[string]bool{}
	checkLit := func(e Expr) {
		lit, ok := e.(FnLit)
		if !ok {
			return
		}
		own := map[string]bool{}
		for _, pa := range lit.Params {
			own[pa.Name] = true
		}
		var declared func(b *Block)
		declared = func(b *Block) {
			if b == nil {
				return
			}
			for _, s := range b.Stmts {
				switch s := s.(type) {
				case Let:
					own[s.Name] = true
				case For:
					own[s.Name] = true
				}
				WalkStmt(s, func(x Expr) {
					if t, ok := x.(Try); ok {
						own[t.Name] = true
					}
					if l, ok := x.(FnLit); ok {
						for _, pa := range l.Params {
							own[pa.Name] = true
						}
					}
					_, blocks := Children(x)
					for _, bb := range blocks {
						declared(bb)
					}
				})
				switch s := s.(type) {
				case Loop:
					declared(s.Body)
				case While:
					declared(s.Body)
				case For:
					declared(s.Body)
				}
			}
		}
		declared(lit.Body)
		WalkBlock(lit.Body, func(x Expr) {
			if t, ok := x.(Try); ok {
				own[t.Name] = true
			}
		})
		WalkBlock(lit.Body, func(x Expr) {
			if v, ok := x.(Var); ok && !own[v.Name] && (!top[v.Name] || locals[v.Name]) {
				tags["closure-capture"] = true
			}
		})
	}
	for _, m := range p.Modules {
		for _, g := range m.Globals {
			WalkExpr(g.V, checkLit)
		}
		for _, fn := range m.Funcs {
			locals = map[string]bool{}
			for _, pa := range fn.Params {
				locals[pa.Name] = true
			}
			var decls func(b *Block)
			decls = func(b *Block) {
				if b == nil {
					return
				}
				for _, st := range b.Stmts {
					switch st := st.(type) {
					case Let:
						locals[st.Name] = true
					case For:
						locals[st.Name] = true
					}
				}
			}
			decls(fn.Body)
			WalkBlock(fn.Body, func(x Expr) {
				if t, ok := x.(Try); ok {
					locals[t.Name] = true
				}
				_, blocks := Children(x)
				for _, bb := range blocks {
					decls(bb)
				}
			})
			// loop bodies are statements, not expressions: their lets
			var loops func(b *Block)
			loops = func(b *Block) {
				if b == nil {
					return
				}
				for _, st := range b.Stmts {
					switch st := st.(type) {
					case Loop:
						decls(st.Body)
						loops(st.Body)
					case While:
						decls(st.Body)
						loops(st.Body)
					case For:
						decls(st.Body)
						loops(st.Body)
					}
					WalkStmt(st, func(x Expr) {
						_, blocks := Children(x)
						for _, bb := range blocks {
							loops(bb)
						}
					})
				}
			}
			loops(fn.Body)
			WalkBlock(fn.Body, checkLit)
		}
	}
	WalkProgram(p, func(e Expr) {
		var ops []Expr
		switch e := e.(type) {
		case Infix:
			if e.Op != "&&" && e.Op != "||" {
				ops = []Expr{e.L, e.R}
			}
		case Assign:
			if e.Op != "=" {
				switch e.Target.(type) {
				case Index, Member:
					if mayMutatePlace(e.V) {
						tags["operand-alias"] = true
					}
				}
			} else {
				// the target cell is resolved before the right-hand side runs
				switch e.Target.(type) {
				case Index, Member:
					ops = []Expr{e.Target, e.V}
				}
			}
		case Call:
			ops = e.Args
			// arguments are evaluated last-to-first: any order dependence counts
			impure := 0
			for _, a := range e.Args {
				if !pure(a) {
					impure++
				}
			}
			if impure > 0 && len(e.Args) > 1 {
				tags["side-effect-args"] = true
			}
			for i, a := range e.Args {
				if yieldsPlace(a) {
					for j, b := range e.Args {
						if i != j && mayMutatePlace(b) {
							tags["operand-alias"] = true
						}
					}
				}
			}
			return
		case Builtin:
			ops = e.Args
			impure := 0
			for _, a := range e.Args {
				if !pure(a) {
					impure++
				}
			}
			if impure > 0 && len(e.Args) > 1 {
				tags["side-effect-args"] = true
			}
		case MCall:
			// the receiver is evaluated after the arguments on the VM
			ops = append([]Expr{e.Recv}, e.Args...)
			impure := 0
			for _, a := range ops {
				if !pure(a) {
					impure++
				}
			}
			if impure > 0 && len(ops) > 1 {
				tags["side-effect-args"] = true
			}
			for i, a := range ops {
				if yieldsPlace(a) {
					for j, b := range ops {
						if i != j && mayMutatePlace(b) {
							tags["operand-alias"] = true
						}
					}
				}
			}
			return
		case ListLit:
			ops = e.Elems
		case ObjLit:
			for _, f := range e.Fields {
				ops = append(ops, f.V)
			}
		case Index:
			ops = []Expr{e.X, e.I}
		case RangeLit:
			ops = []Expr{e.A, e.B}
		}
		for i := range ops {
			if !yieldsPlace(ops[i]) {
				continue
			}
			for j := i + 1; j < len(ops); j++ {
				if mayMutatePlace(ops[j]) {
					tags["operand-alias"] = true
				}
			}
		}
	})
	// for-loops over a list variable whose body leaves early, mutates the list or iterates it again
	// (the interpreter iterates the live list with a cursor stored in the list value)
	var checkFor func(f For)
	checkFor = func(f For) {
		// the iterated value is stored data: a variable, or a list reached through index/member
		var it Expr = f.Iter
		for {
			switch x := it.(type) {
			case Index:
				it = x.X
				continue
			case Member:
				it = x.X
				continue
			case Grouped:
				it = x.X
				continue
			}
			break
		}
		v, ok := it.(Var)
		if !ok || (v.Ty.K != TList && v.Ty.K != TRange && v.Ty.K != TObj) {
			return
		}
		hazard := false
		var visitStmt func(s Stmt)
		visitExpr := func(e Expr) {
			switch e := e.(type) {
			case Builtin:
				if e.Name == "throw" {
					hazard = true
				}
			case MCall:
				// any list mutation inside the body may reach the iterated list through an alias
				if e.Name == "push" || e.Name == "pop" || e.Name == "push_front" || e.Name == "pop_front" {
					hazard = true
				}
				if e.Name == "unwrap" {
					hazard = true
				}
			case Assign:
				if _, ok := e.Target.(Index); ok {
					hazard = true
				}
				if r, ok := e.Target.(Var); ok && r.Name == v.Name {
					hazard = true
				}
			case Call:
				// a callee may throw, or mutate / iterate the list
				hazard = true
			case Infix:
				if e.Op == "/" || e.Op == "%" {
					// may end in a fatal error: both backends stop, no hazard
				}
			}
		}
		var visitBlock func(b *Block)
		visitBlock = func(b *Block) {
			for _, s := range b.Stmts {
				visitStmt(s)
			}
		}
		visitStmt = func(s Stmt) {
			switch s := s.(type) {
			case Break, Return:
				hazard = true
			case For:
				if r, ok := s.Iter.(Var); ok && r.Name == v.Name {
					hazard = true
				}
			}
			WalkStmt(s, visitExpr)
			// nested statements inside blocks of expressions
			WalkStmt(s, func(e Expr) {
				_, blocks := Children(e)
				for _, b := range blocks {
					visitBlock(b)
				}
			})
			switch s := s.(type) {
			case Loop:
				visitBlock(s.Body)
			case While:
				visitBlock(s.Body)
			case For:
				visitBlock(s.Body)
			}
		}
		visitBlock(f.Body)
		if hazard {
			tags["for-live-list"] = true
		}
	}
	var scanBlock func(b *Block)
	scanStmt := func(s Stmt) {}
	scanStmt = func(s Stmt) {
		switch s := s.(type) {
		case For:
			checkFor(s)
			scanBlock(s.Body)
		case Loop:
			scanBlock(s.Body)
		case While:
			scanBlock(s.Body)
		}
		WalkStmt(s, func(e Expr) {
			_, blocks := Children(e)
			for _, b := range blocks {
				scanBlock(b)
			}
		})
	}
	scanBlock = func(b *Block) {
		if b == nil {
			return
		}
		for _, s := range b.Stmts {
			scanStmt(s)
		}
	}
	for _, m := range p.Modules {
		for _, fn := range m.Funcs {
			scanBlock(fn.Body)
		}
	}
	var out []string
	for _, k := range []string{"operand-alias", "side-effect-args", "for-live-list", "closure-capture"} {
		if tags[k] {
			out = append(out, k)
		}
	}
	return out
}
