// Package lexref is an independent reference lexer for homescript, written from the lexical part
// of /repo/grammar.ebnf ("Tokens" section and the terminals used by the syntactic rules). It shares
// no code with /repo's lexer and does not import it.
//
// Reading of the grammar that this reference implements
//
//   - The input is a sequence of runes (CHAR = any UTF-8 character). Positions are counted in runes:
//     Index is 0-based, Line and Column are 1-based, a LF ends a line (the rune after it is column 1
//     of the next line); every other rune, including CR and TAB, occupies one column.
//   - Between tokens, whitespace (space, TAB, CR, LF) and comments are skipped. A line comment is
//     '//' up to and including the next LF (or the end of the text); a block comment is '/*' up to
//     and including the first following '*/'.
//   - At every other position the longest lexeme that matches one of the token productions is taken
//     (maximal munch): operators/punctuation (every quoted terminal of the grammar that is not a
//     word), number, string, ident/keyword. A word that is spelled like a keyword is that keyword,
//     '_' alone is the underscore token, true/on and false/off are the boolean tokens.
//   - number = DIGIT {DIGIT|'_'} ['f' | '.' DIGIT {DIGIT|'_'}]; its value is the lexeme without the
//     digit separators and without the 'f' suffix; it is a float iff it has a suffix or a fraction.
//   - string: both quote styles; the value is the sequence of characters written, with every
//     escape_seq replaced by the character it denotes.
//   - A token's span is the inclusive range [position of its first rune, position of its last rune].
//   - If no production matches at a position the text is lexically invalid there: the token stream
//     ends with an error.
//
// Where the grammar is silent or ambiguous the behaviour is selected by Options; Lex reports which
// of these choices it actually consulted, so that a caller can accept every reading.
package lexref

import (
	"sort"
	"strings"
)

// Pos is a position in the text, counted in runes.
type Pos struct {
	Line, Col, Index int
}

// Token is one reference token. Kind uses the names of the token kinds of the implementation's
// public enumeration (the Go identifiers, e.g. "ShiftLeftAssign"), which is how the grammar's
// terminals are presented to a client of the lexer.
type Token struct {
	Kind   string
	Value  string
	Lexeme string
	Start  Pos
	End    Pos
}

// Choice names a point where the grammar does not determine the result.
type Choice uint

const (
	// QuoteEscape: are \' and \" escape sequences (ESCAPE_CHAR does not list them, but without
	// them a string cannot contain its own quote)? default: yes, they denote the quote.
	QuoteEscape Choice = 1 << iota
	// InvalidCodePoint: an escape that denotes a surrogate or a value above U+10FFFF.
	// default: U+FFFD; alternative: lexical error.
	InvalidCodePoint
	// HighByteEscape: \x80..\xFF and \200..\377: the code point of that value (default) or the
	// single byte of that value (alternative).
	HighByteEscape
	// UnterminatedBlockComment: '/*' without '*/'. default: the comment extends to the end of the
	// text; alternative: lexical error.
	UnterminatedBlockComment
	// ExoticWhitespace: FF, VT, NEL, NBSP, U+2028/9, BOM and other Unicode spaces between tokens.
	// default: lexical error (not whitespace); alternative: whitespace — for all of them (Alt bit)
	// or for the individual runes listed in Options.WS.
	ExoticWhitespace
	// ExtensionToken: '#' and '~>' are produced by the implementation's token enumeration but do
	// not occur in grammar.ebnf. default: they are tokens; alternative: lexical error.
	ExtensionToken
	// BackslashAssign: the grammar lists '\=' among the assignment operators (most likely a typo);
	// no token kind exists for it. It is always lexed as an error here; the choice only records
	// that the construct was met.
	BackslashAssign
	numChoices = 7
)

var choiceNames = []string{"quote-escape", "invalid-code-point-escape", "high-byte-escape", "unterminated-block-comment", "exotic-whitespace", "extension-token(#,~>)", "backslash-assign"}

// Names lists the names of the choices in the set.
func (c Choice) Names() []string {
	var out []string
	for i := 0; i < numChoices; i++ {
		if c&(1<<uint(i)) != 0 {
			out = append(out, choiceNames[i])
		}
	}
	return out
}

// Bits lists the single choices in the set.
func (c Choice) Bits() []Choice {
	var out []Choice
	for i := 0; i < numChoices; i++ {
		if c&(1<<uint(i)) != 0 {
			out = append(out, 1<<uint(i))
		}
	}
	return out
}

// Options selects, per choice, the alternative reading (bit set) or the default (bit clear).
type Options struct {
	Alt Choice
	// WS lists exotic whitespace runes that are to be treated as whitespace individually
	// (Alt&ExoticWhitespace treats all of them as whitespace).
	WS string
}

// LexError describes why the token stream ends early.
type LexError struct {
	// Class: illegal-character | unterminated-string | unterminated-escape | invalid-escape |
	// unterminated-comment | invalid-code-point
	Class string
	// At is the position of the first rune of the construct that cannot be lexed; Where is the
	// position at which the problem was detected.
	At, Where Pos
}

// Result of lexing a text.
type Result struct {
	Tokens []Token
	// Err is nil when the whole text was lexed; otherwise the tokens are those before the error.
	Err *LexError
	// EOF is the position just after the last rune of the text.
	EOF Pos
	// Consulted is the set of choices that influenced this result.
	Consulted Choice
	// Skipped[i] is true when rune i is whitespace or part of a comment (only meaningful up to
	// the error position when Err != nil).
	Skipped []bool
	// ExoticAt is the exotic whitespace rune at which lexing stopped with an error (0 if none).
	ExoticAt rune
}

// operator and punctuation terminals, with the kind names of the token enumeration
var operators = map[string]string{
	"?": "QuestionMark", "@": "AtSymbol", "$": "DollarSymbol", ";": "Semicolon", ",": "Comma", ":": "Colon",
	".": "Dot", "..": "DoubleDot", "->": "Arrow", "=>": "FatArrow",
	"(": "LParen", ")": "RParen", "{": "LCurly", "}": "RCurly", "[": "LBracket", "]": "RBracket",
	"||": "Or", "&&": "And", "==": "Equal", "!=": "NotEqual", "<": "LessThan", "<=": "LessThanEqual",
	">": "GreaterThan", ">=": "GreaterThanEqual", "!": "Not",
	"+": "Plus", "-": "Minus", "*": "Multiply", "/": "Divide", "%": "Modulo", "**": "Power",
	"<<": "ShiftLeft", ">>": "ShiftRight", "|": "BitOr", "&": "BitAnd", "^": "BitXor",
	"=": "Assign", "+=": "PlusAssign", "-=": "MinusAssign", "*=": "MultiplyAssign", "/=": "DivideAssign",
	"**=": "PowerAssign", "%=": "ModuloAssign", "<<=": "ShiftLeftAssign", ">>=": "ShiftRightAssign",
	"|=": "BitOrAssign", "&=": "BitAndAssign", "^=": "BitXorAssign",
}

// tokens of the implementation's enumeration that grammar.ebnf does not mention
var extensionOperators = map[string]string{"#": "HashTag", "~>": "TildeArrow"}

var keywords = map[string]string{
	"import": "Import", "as": "As", "from": "From", "try": "Try", "catch": "Catch", "in": "In", "let": "Let",
	"pub": "Pub", "fn": "Fn", "if": "If", "else": "Else", "match": "Match", "for": "For", "while": "While",
	"loop": "Loop", "break": "Break", "continue": "Continue", "return": "Return", "type": "Type", "new": "New",
	"spawn": "Spawn", "event": "Event", "impl": "Impl", "with": "With", "templ": "Templ", "trigger": "Trigger",
	"true": "True", "on": "True", "false": "False", "off": "False", "none": "None", "null": "Null",
	"_": "Underscore",
}

// Operators returns the operator/punctuation lexemes and their kinds (grammar terminals first,
// extension tokens included when ext is true), sorted.
func Operators(ext bool) [][2]string {
	var out [][2]string
	for k, v := range operators {
		out = append(out, [2]string{k, v})
	}
	if ext {
		for k, v := range extensionOperators {
			out = append(out, [2]string{k, v})
		}
	}
	sort.Slice(out, func(i, j int) bool { return out[i][0] < out[j][0] })
	return out
}

// Keywords returns the keyword spellings and their kinds, sorted ('_' included).
func Keywords() [][2]string {
	var out [][2]string
	for k, v := range keywords {
		out = append(out, [2]string{k, v})
	}
	sort.Slice(out, func(i, j int) bool { return out[i][0] < out[j][0] })
	return out
}

func isDigit(r rune) bool  { return r >= '0' && r <= '9' }
func isOctal(r rune) bool  { return r >= '0' && r <= '7' }
func isLetter(r rune) bool { return r >= 'A' && r <= 'Z' || r >= 'a' && r <= 'z' || r == '_' }
func isHex(r rune) bool {
	return isDigit(r) || r >= 'A' && r <= 'F' || r >= 'a' && r <= 'f'
}
func hexVal(r rune) uint64 {
	switch {
	case isDigit(r):
		return uint64(r - '0')
	case r >= 'a':
		return uint64(r-'a') + 10
	default:
		return uint64(r-'A') + 10
	}
}

func isPlainWhitespace(r rune) bool { return r == ' ' || r == '\t' || r == '\r' || r == '\n' }

// IsExoticWhitespace: characters that some lexers treat as whitespace but the property's
// "whitespace" (space, tab, CR, LF) does not obviously include.
func IsExoticWhitespace(r rune) bool {
	switch r {
	case '\f', '\v', 0x85, 0xA0, 0x1680, 0x2028, 0x2029, 0x202F, 0x205F, 0x3000, 0xFEFF:
		return true
	}
	return r >= 0x2000 && r <= 0x200A
}

// PosTable maps rune indices to positions: PosTable(runes)[i] is the position of rune i, and the
// entry at len(runes) is the position just after the text.
func PosTable(runes []rune) []Pos {
	out := make([]Pos, len(runes)+1)
	line, col := 1, 1
	for i, r := range runes {
		out[i] = Pos{line, col, i}
		if r == '\n' {
			line++
			col = 1
		} else {
			col++
		}
	}
	out[len(runes)] = Pos{line, col, len(runes)}
	return out
}

type lx struct {
	r    []rune
	pos  []Pos
	opt  Options
	used Choice
}

func (l *lx) alt(c Choice) bool {
	l.used |= c
	return l.opt.Alt&c != 0
}

// Lex lexes text under the given options.
func Lex(text string, opt Options) Result {
	r := []rune(text)
	l := &lx{r: r, pos: PosTable(r), opt: opt}
	res := Result{EOF: l.pos[len(r)], Skipped: make([]bool, len(r))}
	i := 0
	for i < len(r) {
		c := r[i]
		// whitespace
		if isPlainWhitespace(c) {
			res.Skipped[i] = true
			i++
			continue
		}
		if IsExoticWhitespace(c) {
			if l.alt(ExoticWhitespace) || strings.ContainsRune(opt.WS, c) {
				res.Skipped[i] = true
				i++
				continue
			}
			res.Err = &LexError{Class: "illegal-character", At: l.pos[i], Where: l.pos[i]}
			res.ExoticAt = c
			break
		}
		// comments
		if c == '/' && i+1 < len(r) && r[i+1] == '/' {
			j := i
			for j < len(r) && r[j] != '\n' {
				j++
			}
			if j < len(r) {
				j++ // the LF belongs to the comment
			}
			for k := i; k < j; k++ {
				res.Skipped[k] = true
			}
			i = j
			continue
		}
		if c == '/' && i+1 < len(r) && r[i+1] == '*' {
			j := i + 2
			closed := -1
			for ; j+1 < len(r); j++ {
				if r[j] == '*' && r[j+1] == '/' {
					closed = j + 2
					break
				}
			}
			if closed < 0 {
				if l.alt(UnterminatedBlockComment) {
					res.Err = &LexError{Class: "unterminated-comment", At: l.pos[i], Where: l.pos[len(r)]}
					break
				}
				closed = len(r)
			}
			for k := i; k < closed; k++ {
				res.Skipped[k] = true
			}
			i = closed
			continue
		}
		tok, n, err := l.token(i)
		if err != nil {
			res.Err = err
			break
		}
		tok.Lexeme = string(r[i : i+n])
		tok.Start = l.pos[i]
		tok.End = l.pos[i+n-1]
		res.Tokens = append(res.Tokens, tok)
		i += n
	}
	res.Consulted = l.used
	return res
}

// token returns the longest token starting at rune i and its length in runes.
func (l *lx) token(i int) (Token, int, *LexError) {
	r := l.r
	c := r[i]
	switch {
	case isDigit(c):
		return l.number(i)
	case isLetter(c):
		j := i + 1
		for j < len(r) && (isLetter(r[j]) || isDigit(r[j])) {
			j++
		}
		word := string(r[i:j])
		if k, ok := keywords[word]; ok {
			return Token{Kind: k, Value: word}, j - i, nil
		}
		return Token{Kind: "Identifier", Value: word}, j - i, nil
	case c == '"' || c == '\'':
		return l.str(i)
	}
	// operators: longest terminal that is a prefix of the rest (at most 3 runes)
	best, bestKind := 0, ""
	for n := 1; n <= 3 && i+n <= len(r); n++ {
		s := string(r[i : i+n])
		if k, ok := operators[s]; ok {
			best, bestKind = n, k
		}
	}
	// extension tokens
	extBest, extKind := 0, ""
	for n := 1; n <= 2 && i+n <= len(r); n++ {
		if k, ok := extensionOperators[string(r[i:i+n])]; ok {
			extBest, extKind = n, k
		}
	}
	if extBest > best {
		if l.alt(ExtensionToken) {
			return Token{}, 0, &LexError{Class: "illegal-character", At: l.pos[i], Where: l.pos[i]}
		}
		return Token{Kind: extKind, Value: string(r[i : i+extBest])}, extBest, nil
	}
	if best > 0 {
		return Token{Kind: bestKind, Value: string(r[i : i+best])}, best, nil
	}
	if c == '\\' && i+1 < len(r) && r[i+1] == '=' {
		l.alt(BackslashAssign)
	}
	return Token{}, 0, &LexError{Class: "illegal-character", At: l.pos[i], Where: l.pos[i]}
}

func (l *lx) number(i int) (Token, int, *LexError) {
	r := l.r
	j := i + 1
	for j < len(r) && (isDigit(r[j]) || r[j] == '_') {
		j++
	}
	kind := "Int"
	intEnd := j
	suffix := false
	if j < len(r) && r[j] == 'f' {
		kind = "Float"
		suffix = true
		j++
	} else if j+1 < len(r) && r[j] == '.' && isDigit(r[j+1]) {
		kind = "Float"
		j += 2
		for j < len(r) && (isDigit(r[j]) || r[j] == '_') {
			j++
		}
	}
	text := string(r[i:j])
	if suffix {
		text = string(r[i:intEnd])
	}
	return Token{Kind: kind, Value: strings.ReplaceAll(text, "_", "")}, j - i, nil
}

func (l *lx) str(i int) (Token, int, *LexError) {
	r := l.r
	quote := r[i]
	var val []byte
	j := i + 1
	for {
		if j >= len(r) {
			return Token{}, 0, &LexError{Class: "unterminated-string", At: l.pos[i], Where: l.pos[len(r)]}
		}
		c := r[j]
		if c == quote {
			return Token{Kind: "String", Value: string(val)}, j + 1 - i, nil
		}
		if c != '\\' {
			val = append(val, string(c)...)
			j++
			continue
		}
		// escape_seq
		escAt := j
		j++
		if j >= len(r) {
			return Token{}, 0, &LexError{Class: "unterminated-escape", At: l.pos[i], Where: l.pos[len(r)]}
		}
		e := r[j]
		var code uint64
		digits, radixHex := 0, true
		switch e {
		case '\\':
			val = append(val, '\\')
			j++
			continue
		case 'b':
			val = append(val, '\b')
			j++
			continue
		case 'n':
			val = append(val, '\n')
			j++
			continue
		case 'r':
			val = append(val, '\r')
			j++
			continue
		case 't':
			val = append(val, '\t')
			j++
			continue
		case '\'', '"':
			if l.alt(QuoteEscape) {
				return Token{}, 0, &LexError{Class: "invalid-escape", At: l.pos[i], Where: l.pos[escAt]}
			}
			val = append(val, byte(e))
			j++
			continue
		case 'x':
			digits = 2
			j++
		case 'u':
			digits = 4
			j++
		case 'U':
			digits = 8
			j++
		default:
			if !isOctal(e) {
				return Token{}, 0, &LexError{Class: "invalid-escape", At: l.pos[i], Where: l.pos[escAt]}
			}
			digits, radixHex = 3, false
		}
		for d := 0; d < digits; d++ {
			if j >= len(r) {
				return Token{}, 0, &LexError{Class: "invalid-escape", At: l.pos[i], Where: l.pos[escAt]}
			}
			if radixHex {
				if !isHex(r[j]) {
					return Token{}, 0, &LexError{Class: "invalid-escape", At: l.pos[i], Where: l.pos[escAt]}
				}
				code = code*16 + hexVal(r[j])
			} else {
				if !isOctal(r[j]) {
					return Token{}, 0, &LexError{Class: "invalid-escape", At: l.pos[i], Where: l.pos[escAt]}
				}
				code = code*8 + uint64(r[j]-'0')
			}
			j++
		}
		switch {
		case code >= 0xD800 && code <= 0xDFFF || code > 0x10FFFF:
			if l.alt(InvalidCodePoint) {
				return Token{}, 0, &LexError{Class: "invalid-code-point", At: l.pos[i], Where: l.pos[escAt]}
			}
			val = append(val, "\uFFFD"...)
		case code >= 0x80 && code <= 0xFF && digits <= 3:
			if l.alt(HighByteEscape) {
				val = append(val, byte(code))
			} else {
				val = append(val, string(rune(code))...)
			}
		default:
			val = append(val, string(rune(code))...)
		}
	}
}
