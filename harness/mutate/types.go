package mutate

import (
	"fmt"
	"sort"
	"strings"
)

// Kind of a type.
type Kind int

const (
	KInt Kind = iota
	KFloat
	KBool
	KStr
	KNull
	KRange
	KAny
	KList
	KOpt
	KObj
	KAnyObj
	KFn
	KNever
	KUnknown
)

// Field of an object type / parameter of a function type.
type Field struct {
	Name string
	T    *Ty
}

// Ty is a homescript type as the harness sees it.
type Ty struct {
	K      Kind
	Elem   *Ty     // list, option
	Fields []Field // object fields (kept sorted by name), fn parameters (in order)
	Ret    *Ty     // fn
}

// Constructors.
var (
	Int     = &Ty{K: KInt}
	Float   = &Ty{K: KFloat}
	Bool    = &Ty{K: KBool}
	Str     = &Ty{K: KStr}
	Null    = &Ty{K: KNull}
	Range   = &Ty{K: KRange}
	Any     = &Ty{K: KAny}
	AnyObj  = &Ty{K: KAnyObj}
	Never   = &Ty{K: KNever}
	Unknown = &Ty{K: KUnknown}
)

func ListOf(e *Ty) *Ty { return &Ty{K: KList, Elem: e} }
func OptOf(e *Ty) *Ty  { return &Ty{K: KOpt, Elem: e} }
func ObjOf(fs ...Field) *Ty {
	c := append([]Field{}, fs...)
	sort.SliceStable(c, func(i, j int) bool { return c[i].Name < c[j].Name })
	return &Ty{K: KObj, Fields: c}
}
func FnOf(ret *Ty, ps ...Field) *Ty { return &Ty{K: KFn, Fields: append([]Field{}, ps...), Ret: ret} }

// String renders the canonical form: no spaces, object fields sorted by name.
func (t *Ty) String() string {
	switch t.K {
	case KInt:
		return "int"
	case KFloat:
		return "float"
	case KBool:
		return "bool"
	case KStr:
		return "str"
	case KNull:
		return "null"
	case KRange:
		return "range"
	case KAny:
		return "any"
	case KNever:
		return "never"
	case KUnknown:
		return "unknown"
	case KAnyObj:
		return "{?}"
	case KList:
		return "[" + t.Elem.String() + "]"
	case KOpt:
		return "?" + t.Elem.String()
	case KObj:
		parts := make([]string, len(t.Fields))
		for i, f := range t.Fields {
			parts[i] = f.Name + ":" + f.T.String()
		}
		return "{" + strings.Join(parts, ",") + "}"
	case KFn:
		parts := make([]string, len(t.Fields))
		for i, f := range t.Fields {
			parts[i] = f.Name + ":" + f.T.String()
		}
		return "fn(" + strings.Join(parts, ",") + ")->" + t.Ret.String()
	}
	return "?"
}

// Source renders the type in homescript source syntax (usable in annotations).
func (t *Ty) Source() string {
	switch t.K {
	case KAnyObj:
		return "{ ? }"
	case KList:
		return "[" + t.Elem.Source() + "]"
	case KOpt:
		return "?" + t.Elem.Source()
	case KObj:
		parts := make([]string, len(t.Fields))
		for i, f := range t.Fields {
			parts[i] = f.Name + ": " + f.T.Source()
		}
		return "{ " + strings.Join(parts, ", ") + " }"
	case KFn:
		parts := make([]string, len(t.Fields))
		for i, f := range t.Fields {
			parts[i] = f.Name + ": " + f.T.Source()
		}
		return "fn(" + strings.Join(parts, ", ") + ") -> " + t.Ret.Source()
	}
	return t.String()
}

// Equal is structural equality (object fields by name, fn parameters by name and position).
func (t *Ty) Equal(o *Ty) bool { return t.String() == o.String() }

// HasAny reports whether the type mentions any/unknown/never anywhere.
func (t *Ty) HasAny() bool {
	switch t.K {
	case KAny, KUnknown, KNever:
		return true
	case KList, KOpt:
		return t.Elem.HasAny()
	case KObj, KFn:
		for _, f := range t.Fields {
			if f.T.HasAny() {
				return true
			}
		}
		if t.Ret != nil {
			return t.Ret.HasAny()
		}
	}
	return false
}

type tparser struct {
	s string
	i int
}

func (p *tparser) ws() {
	for p.i < len(p.s) && (p.s[p.i] == ' ' || p.s[p.i] == '\n' || p.s[p.i] == '\t') {
		p.i++
	}
}

func (p *tparser) ident() string {
	p.ws()
	j := p.i
	for j < len(p.s) && (p.s[j] == '_' || p.s[j] >= 'a' && p.s[j] <= 'z' || p.s[j] >= 'A' && p.s[j] <= 'Z' || p.s[j] >= '0' && p.s[j] <= '9') {
		j++
	}
	id := p.s[p.i:j]
	p.i = j
	return id
}

func (p *tparser) eat(c byte) bool {
	p.ws()
	if p.i < len(p.s) && p.s[p.i] == c {
		p.i++
		return true
	}
	return false
}

func (p *tparser) typ() (*Ty, error) {
	p.ws()
	if p.i >= len(p.s) {
		return nil, fmt.Errorf("type expected at end of %q", p.s)
	}
	switch p.s[p.i] {
	case '[':
		p.i++
		e, err := p.typ()
		if err != nil {
			return nil, err
		}
		if !p.eat(']') {
			return nil, fmt.Errorf("']' expected in %q", p.s)
		}
		return ListOf(e), nil
	case '?':
		p.i++
		e, err := p.typ()
		if err != nil {
			return nil, err
		}
		return OptOf(e), nil
	case '{':
		p.i++
		if p.eat('?') {
			if !p.eat('}') {
				return nil, fmt.Errorf("'}' expected in %q", p.s)
			}
			return AnyObj, nil
		}
		var fs []Field
		for !p.eat('}') {
			name := p.ident()
			if name == "" || !p.eat(':') {
				return nil, fmt.Errorf("field expected in %q at %d", p.s, p.i)
			}
			t, err := p.typ()
			if err != nil {
				return nil, err
			}
			fs = append(fs, Field{name, t})
			p.eat(',')
		}
		return ObjOf(fs...), nil
	}
	id := p.ident()
	switch id {
	case "int":
		return Int, nil
	case "float":
		return Float, nil
	case "bool":
		return Bool, nil
	case "str":
		return Str, nil
	case "null":
		return Null, nil
	case "range":
		return Range, nil
	case "any":
		return Any, nil
	case "never":
		return Never, nil
	case "unknown":
		return Unknown, nil
	case "fn":
		if !p.eat('(') {
			return nil, fmt.Errorf("'(' expected in %q", p.s)
		}
		var ps []Field
		for !p.eat(')') {
			name := p.ident()
			if name == "" || !p.eat(':') {
				return nil, fmt.Errorf("parameter expected in %q at %d", p.s, p.i)
			}
			t, err := p.typ()
			if err != nil {
				return nil, err
			}
			ps = append(ps, Field{name, t})
			p.eat(',')
		}
		ret := Null
		p.ws()
		if strings.HasPrefix(p.s[p.i:], "->") {
			p.i += 2
			r, err := p.typ()
			if err != nil {
				return nil, err
			}
			ret = r
		}
		return FnOf(ret, ps...), nil
	}
	return nil, fmt.Errorf("unknown type %q in %q", id, p.s)
}

// ParseType parses a structural type (no alias names).
func ParseType(s string) (*Ty, error) {
	p := &tparser{s: s}
	t, err := p.typ()
	if err != nil {
		return nil, err
	}
	p.ws()
	if p.i != len(p.s) {
		return nil, fmt.Errorf("trailing text in type %q", s)
	}
	return t, nil
}

// MustType parses or panics.
func MustType(s string) *Ty {
	t, err := ParseType(s)
	if err != nil {
		panic(err)
	}
	return t
}
