// Package mutate holds the marked-source format and the single-fault mutators of property C03
// (DESIGN.md §2.6, Appendix H).
//
// A base program is homescript source text in which mutation sites are written as markers:
//
//	«kind:attrs|text»     a region site: text is part of the program, the marker says what it is
//	«kind:attrs»          a point site (nothing is emitted into the program)
//	«mut:rule|base¦m1¦m2» an explicit site: base is part of the program, m1, m2 are hand-written mutants
//
// Markers nest. Stripping all markers gives the well-typed base program; applying exactly one
// replacement at exactly one site gives a single-fault mutant. The package knows nothing about
// /repo: deciding whether a mutant is surely ill-typed only uses the types written in the markers.
//
// Site kinds (T is a type in homescript type syntax, see ParseType):
//
//	opd:T   operand of an infix operator whose operands both have type T
//	neg:T   operand of prefix '-' (T int|float);  not:T operand of prefix '!' (T bool|int)
//	bop:T   an infix operator token whose operands have type T
//	aop:T   a compound/plain assignment operator token whose target has type T
//	arg:T   call argument for a parameter declared with type T
//	args:N  the whole argument list (N arguments) of a call of a fixed-arity function
//	ret:T   value of a `return` in a function returning T;  tail:T tail expression of such a function
//	pt:F:T  statement insertion point: F is L (inside a loop of the same function) or -, T the return
//	        type of the innermost enclosing function or closure
//	asg:T   value assigned to a variable/field/element/annotated let of type T
//	el:T    second or later element of a list literal whose elements have type T
//	idx:T   index expression (T int for lists and strings, str for objects)
//	cond    condition of if/while
//	br:T    value of one branch of if/else, try/catch or of a match arm (all branches have type T)
//	els     the ` else {…}` part of a non-null if;  dflt: the default arm of a non-null match
//	iter    the iterated expression of a for loop
//	id:C    a use of a name of class C (var, fn, type, member, import, module, singleton, trigger, templ, field)
//	dup:C   a definition of class C (fn, param, global, type, field, tfield) that must not occur twice
//	gin:T   a global initialiser of type T (attr "a" before T: the global is annotated → gin:a:T)
//	ty:T    no mutation: the analyzer must record type T for this expression (let initialisers)
//	mut:R   explicit mutants for rule R
//	ctx:L   region label (context class of all sites inside);  tag:N region tag (known-finding poison)
//
// A `?` directly after the kind («br?:int|…») declares the site unsure: its mutants are not
// produced, only counted as dropped-unsure.
package mutate

import (
	"fmt"
	"regexp"
	"sort"
	"strings"
)

const (
	open  = '«'
	close = '»'
	alt   = '¦'
)

// Site is one mutation site of a base program.
type Site struct {
	ID     int
	Module string
	Kind   string
	Unsure bool
	Arg    string // first attribute for kinds that have one (pt flag, args count, id/dup class, mut rule, gin "a")
	Type   string // type attribute in canonical form ("" if none)
	Start  int    // byte offsets into the stripped module text
	End    int
	Text   string   // stripped inner text
	Alts   []string // explicit mutants (mut)
	Ctx    string   // context class: enclosing ctx labels joined by '/', "top" if none
	Tags   []string // enclosing tags, sorted
}

// Expect is a type expectation: the initialiser of `let Name` must be recorded with type Type.
type Expect struct {
	Module string
	Name   string
	Type   string
	Class  string // expression class for signatures
	// OfVar: the expectation is about the type recorded for the variable (annotated let: asg/gin
	// markers), not about the initialiser expression itself (ty markers).
	OfVar bool
}

// Parsed is a base program with its markers stripped.
type Parsed struct {
	Plain   map[string]string
	Sites   []Site
	Expects []Expect
}

type frame struct {
	site    Site
	ctxPush bool
	tagPush bool
	inAlt   bool
	cur     strings.Builder // current alternative text
}

var letRe = regexp.MustCompile(`let\s+([A-Za-z_][A-Za-z_0-9]*)\s*(:[^=;]*)?=\s*$`)

// ParseModule strips the markers of one module.
func ParseModule(module, marked string, nextID *int) (plain string, sites []Site, expects []Expect, err error) {
	var out strings.Builder
	var stack []*frame
	var ctx, tags []string
	rs := []rune(marked)
	i := 0
	line := 1
	for i < len(rs) {
		r := rs[i]
		if r == '\n' {
			line++
		}
		switch {
		case r == open:
			// header: up to the first '|' or '»'
			j := i + 1
			for j < len(rs) && rs[j] != '|' && rs[j] != close && rs[j] != open && rs[j] != '\n' {
				j++
			}
			if j >= len(rs) || rs[j] == open || rs[j] == '\n' {
				return "", nil, nil, fmt.Errorf("%s:%d: unterminated marker header", module, line)
			}
			if len(stack) > 0 && stack[len(stack)-1].inAlt {
				return "", nil, nil, fmt.Errorf("%s:%d: marker inside an alternative", module, line)
			}
			header := string(rs[i+1 : j])
			f := &frame{}
			f.site.Module = module
			if e := parseHeader(header, &f.site); e != nil {
				return "", nil, nil, fmt.Errorf("%s:%d: %v", module, line, e)
			}
			f.site.Start = out.Len()
			f.site.Ctx = strings.Join(uniq(ctx), "/")
			if f.site.Ctx == "" {
				f.site.Ctx = "top"
			}
			f.site.Tags = append([]string{}, tags...)
			sort.Strings(f.site.Tags)
			switch f.site.Kind {
			case "ctx":
				ctx = append(ctx, f.site.Arg)
				f.ctxPush = true
			case "tag":
				tags = append(tags, f.site.Arg)
				f.tagPush = true
			}
			if rs[j] == close {
				// point marker
				f.site.End = f.site.Start
				f.site.ID = *nextID
				*nextID++
				if f.ctxPush || f.tagPush {
					return "", nil, nil, fmt.Errorf("%s:%d: ctx/tag marker needs a region", module, line)
				}
				sites = append(sites, f.site)
				i = j + 1
				continue
			}
			stack = append(stack, f)
			i = j + 1
			continue
		case r == alt:
			if len(stack) == 0 || stack[len(stack)-1].site.Kind != "mut" {
				return "", nil, nil, fmt.Errorf("%s:%d: '¦' outside a mut marker", module, line)
			}
			f := stack[len(stack)-1]
			if f.inAlt {
				f.site.Alts = append(f.site.Alts, f.cur.String())
				f.cur.Reset()
			} else {
				f.site.End = out.Len()
				f.inAlt = true
			}
			i++
			continue
		case r == close:
			if len(stack) == 0 {
				return "", nil, nil, fmt.Errorf("%s:%d: unbalanced '»'", module, line)
			}
			f := stack[len(stack)-1]
			stack = stack[:len(stack)-1]
			if f.inAlt {
				f.site.Alts = append(f.site.Alts, f.cur.String())
			} else {
				f.site.End = out.Len()
			}
			if f.ctxPush {
				ctx = ctx[:len(ctx)-1]
			}
			if f.tagPush {
				tags = tags[:len(tags)-1]
			}
			f.site.Text = out.String()[f.site.Start:f.site.End]
			if f.site.Kind != "ctx" && f.site.Kind != "tag" {
				f.site.ID = *nextID
				*nextID++
				sites = append(sites, f.site)
			}
			i++
			continue
		}
		if len(stack) > 0 && stack[len(stack)-1].inAlt {
			stack[len(stack)-1].cur.WriteRune(r)
		} else {
			out.WriteRune(r)
		}
		i++
	}
	if len(stack) != 0 {
		return "", nil, nil, fmt.Errorf("%s: %d unclosed marker(s), first kind %q", module, len(stack), stack[0].site.Kind)
	}
	plain = out.String()
	sort.SliceStable(sites, func(a, b int) bool { return sites[a].ID < sites[b].ID })
	for _, s := range sites {
		if s.Type == "" || s.Start == s.End {
			continue
		}
		switch s.Kind {
		case "ty", "asg", "gin":
			if m := letRe.FindStringSubmatch(plain[:s.Start]); m != nil {
				// the marker must cover the whole initialiser: next non-space char is ';'
				rest := strings.TrimLeft(plain[s.End:], " \t\n")
				if strings.HasPrefix(rest, ";") {
					expects = append(expects, Expect{Module: module, Name: m[1], Type: s.Type, Class: exprClass(s.Text), OfVar: s.Kind != "ty"})
				}
			}
		}
	}
	return plain, sites, expects, nil
}

func parseHeader(h string, s *Site) error {
	kind, rest, _ := strings.Cut(h, ":")
	if strings.HasSuffix(kind, "?") {
		s.Unsure = true
		kind = strings.TrimSuffix(kind, "?")
	}
	s.Kind = kind
	typ := ""
	switch kind {
	case "opd", "neg", "not", "bop", "aop", "arg", "ret", "tail", "asg", "br", "ty", "el", "idx":
		typ = rest
		if typ == "" {
			return fmt.Errorf("marker %q needs a type", kind)
		}
	case "pt":
		flag, t, ok := strings.Cut(rest, ":")
		if !ok || (flag != "L" && flag != "-") {
			return fmt.Errorf("pt marker needs pt:L:T or pt:-:T, got %q", h)
		}
		s.Arg = flag
		typ = t
	case "gin":
		if strings.HasPrefix(rest, "a:") {
			s.Arg = "a"
			rest = rest[2:]
		}
		typ = rest
	case "args", "id", "dup", "mut", "ctx", "tag":
		if rest == "" {
			return fmt.Errorf("marker %q needs an attribute", kind)
		}
		s.Arg = rest
	case "cond", "iter", "els", "dflt":
	default:
		return fmt.Errorf("unknown marker kind %q", kind)
	}
	if typ != "" && typ != "?" {
		t, err := ParseType(typ)
		if err != nil {
			return fmt.Errorf("marker %q: %v", h, err)
		}
		s.Type = t.String()
	}
	return nil
}

// exprClass names the syntactic class of an expression text (for type-mismatch signatures).
func exprClass(text string) string {
	t := strings.TrimSpace(text)
	switch {
	case t == "":
		return "empty"
	case strings.HasPrefix(t, "if "):
		return "if"
	case strings.HasPrefix(t, "match "):
		return "match"
	case strings.HasPrefix(t, "try "):
		return "try"
	case strings.HasPrefix(t, "{"):
		return "block"
	case strings.HasPrefix(t, "fn("), strings.HasPrefix(t, "fn ("):
		return "closure"
	case strings.HasPrefix(t, "new "):
		return "object"
	case strings.HasPrefix(t, "["):
		return "list"
	case strings.HasPrefix(t, "?"):
		return "some"
	case strings.Contains(t, " as "):
		return "cast"
	case strings.HasSuffix(t, ")"):
		return "call"
	case strings.HasSuffix(t, "]"):
		return "index"
	case strings.ContainsAny(t, "+-*/%<>=&|^"):
		return "operator"
	case strings.Contains(t, "."):
		return "member"
	}
	return "atom"
}

// Parse strips the markers of all modules of a program (modules in sorted order, site ids are
// unique across the program).
func Parse(modules map[string]string) (Parsed, error) {
	p := Parsed{Plain: map[string]string{}}
	names := make([]string, 0, len(modules))
	for k := range modules {
		names = append(names, k)
	}
	sort.Strings(names)
	id := 0
	for _, n := range names {
		plain, sites, exp, err := ParseModule(n, modules[n], &id)
		if err != nil {
			return p, err
		}
		p.Plain[n] = plain
		p.Sites = append(p.Sites, sites...)
		p.Expects = append(p.Expects, exp...)
	}
	return p, nil
}

// uniq removes repeated labels (first occurrence wins).
func uniq(xs []string) []string {
	seen := map[string]bool{}
	var out []string
	for _, x := range xs {
		if !seen[x] {
			seen[x] = true
			out = append(out, x)
		}
	}
	return out
}
