package mutate

import (
	"fmt"
	"sort"
	"strconv"
	"strings"
)

// Mutant is a program with exactly one static fault.
type Mutant struct {
	SiteID int
	Rule   string // rule of Appendix H that is broken
	Ctx    string // context class of the site
	Tags   []string
	Desc   string // what was done, e.g. `ret:int := "zz"`
	Module string // the module that was changed
	Source string // its new text
}

// Rules lists the rule names the generic mutators produce (explicit mut markers add their own).
var Rules = []string{"operand", "operator", "argument", "arity", "return", "assignment", "condition", "branch", "iterator", "unknown-name", "loop-control", "duplicate", "global-init", "list-element", "index"}

// WrongLits returns literals whose type is certainly incompatible with t (no any, no never, no
// int/float confusion). nil means: nothing is certain (t mentions any/unknown).
func WrongLits(t *Ty) []string {
	if t == nil || t.HasAny() {
		return nil
	}
	switch t.K {
	case KInt, KFloat:
		return []string{`"zz"`, `true`}
	case KBool:
		return []string{`1`, `"zz"`}
	case KStr:
		return []string{`1`, `true`}
	case KList:
		out := []string{`1`}
		if in := WrongLits(t.Elem); len(in) > 0 && t.Elem.K != KList && t.Elem.K != KObj {
			out = append(out, "["+in[0]+"]")
		}
		return out
	case KOpt:
		out := []string{`1`}
		if in := WrongLits(t.Elem); len(in) > 0 && t.Elem.K != KOpt {
			out = append(out, "?"+in[0])
		}
		return out
	case KObj:
		return []string{`1`, `new { zz_q: 1 }`}
	case KAnyObj, KRange, KFn:
		return []string{`1`, `"zz"`}
	case KNull:
		return []string{`1`}
	}
	return nil
}

// Lit returns a literal expression of type t (used where a mutant needs a well-typed filler).
func Lit(t *Ty) string {
	switch t.K {
	case KInt:
		return "7"
	case KFloat:
		return "2.5"
	case KBool:
		return "true"
	case KStr:
		return `"lit"`
	case KNull:
		return "null"
	case KRange:
		return "1..3"
	case KList:
		return "[" + Lit(t.Elem) + "]"
	case KOpt:
		return "?" + Lit(t.Elem)
	case KAnyObj:
		return "new { ? }"
	case KObj:
		parts := make([]string, len(t.Fields))
		for i, f := range t.Fields {
			parts[i] = f.Name + ": " + Lit(f.T)
		}
		return "new { " + strings.Join(parts, ", ") + " }"
	}
	return ""
}

// badInfixOps: operators the analyzer must not admit for operands of type t.
func badInfixOps(t *Ty, cur string) []string {
	var c []string
	switch t.K {
	case KInt:
		c = []string{"&&", "||"}
	case KFloat:
		c = []string{"%", "&&", "<<"}
	case KBool:
		c = []string{"<", "+"}
	case KStr:
		c = []string{"-", "*"}
	case KAny, KUnknown, KNever:
		return nil
	default:
		c = []string{"-", "<"}
	}
	var out []string
	for _, o := range c {
		if o != cur {
			out = append(out, o)
		}
	}
	return out
}

func badAssignOps(t *Ty, cur string) []string {
	var c []string
	switch t.K {
	case KInt:
		return nil // every assignment operator is admitted for int
	case KFloat:
		c = []string{"<<=", "|="}
	case KBool:
		c = []string{"+=", "-="}
	case KStr:
		c = []string{"-=", "*="}
	case KAny, KUnknown, KNever:
		return nil
	default:
		c = []string{"-="}
	}
	var out []string
	for _, o := range c {
		if o != cur {
			out = append(out, o)
		}
	}
	return out
}

// SplitTopLevel splits an argument list at top-level commas.
func SplitTopLevel(s string) []string {
	var parts []string
	depth := 0
	start := 0
	var quote byte
	for i := 0; i < len(s); i++ {
		c := s[i]
		if quote != 0 {
			if c == '\\' {
				i++
			} else if c == quote {
				quote = 0
			}
			continue
		}
		switch c {
		case '"', '\'':
			quote = c
		case '(', '[', '{':
			depth++
		case ')', ']', '}':
			depth--
		case ',':
			if depth == 0 {
				parts = append(parts, s[start:i])
				start = i + 1
			}
		}
	}
	if strings.TrimSpace(s[start:]) != "" || len(parts) == 0 {
		parts = append(parts, s[start:])
	}
	return parts
}

type repl struct {
	rule, desc string
	text       string // replacement of [Start,End)
	tail       string // text appended to the module
	head       string // text inserted at the start of the line that holds the site
}

func siteRepls(s Site) []repl {
	var t *Ty
	if s.Type != "" {
		t = MustType(s.Type)
	}
	var out []repl
	wrong := func(rule string) {
		for _, l := range WrongLits(t) {
			out = append(out, repl{rule: rule, desc: fmt.Sprintf("%s:%s := %s", s.Kind, s.Type, l), text: l})
		}
	}
	switch s.Kind {
	case "opd":
		wrong("operand")
	case "neg":
		for _, l := range []string{`"zz"`, `true`} {
			out = append(out, repl{rule: "operand", desc: "neg operand := " + l, text: l})
		}
	case "not":
		for _, l := range []string{`"zz"`, `1.5`} {
			out = append(out, repl{rule: "operand", desc: "not operand := " + l, text: l})
		}
	case "bop":
		if t != nil {
			for _, o := range badInfixOps(t, strings.TrimSpace(s.Text)) {
				out = append(out, repl{rule: "operator", desc: fmt.Sprintf("%s %s -> %s", s.Type, strings.TrimSpace(s.Text), o), text: o})
			}
		}
	case "aop":
		if t != nil {
			for _, o := range badAssignOps(t, strings.TrimSpace(s.Text)) {
				out = append(out, repl{rule: "operator", desc: fmt.Sprintf("%s %s -> %s", s.Type, strings.TrimSpace(s.Text), o), text: o})
			}
		}
	case "arg":
		wrong("argument")
	case "args":
		n, _ := strconv.Atoi(s.Arg)
		parts := SplitTopLevel(s.Text)
		if n >= 1 && len(parts) == n {
			out = append(out, repl{rule: "arity", desc: fmt.Sprintf("delete last of %d arguments", n), text: strings.Join(parts[:n-1], ",")})
			out = append(out, repl{rule: "arity", desc: fmt.Sprintf("duplicate last of %d arguments", n), text: s.Text + "," + parts[n-1]})
		}
		if n == 0 {
			out = append(out, repl{rule: "arity", desc: "add an argument to a nullary call", text: "0"})
		}
	case "ret", "tail":
		wrong("return")
	case "pt":
		if t != nil && !t.HasAny() {
			if t.K == KNull {
				out = append(out, repl{rule: "return", desc: "insert `return 1;` into a null function", text: "return 1; "})
			} else {
				out = append(out, repl{rule: "return", desc: "insert bare `return;` into a " + s.Type + " function", text: "return; "})
				if w := WrongLits(t); len(w) > 0 {
					out = append(out, repl{rule: "return", desc: "insert `return " + w[0] + ";` into a " + s.Type + " function", text: "return " + w[0] + "; "})
				}
			}
		}
		if s.Arg == "-" {
			out = append(out, repl{rule: "loop-control", desc: "insert `break;` outside a loop", text: "break; "})
			out = append(out, repl{rule: "loop-control", desc: "insert `continue;` outside a loop", text: "continue; "})
		}
	case "asg":
		wrong("assignment")
	case "el":
		wrong("list-element")
	case "idx":
		wrong("index")
	case "cond":
		for _, l := range []string{`1`, `"zz"`} {
			out = append(out, repl{rule: "condition", desc: "condition := " + l, text: l})
		}
	case "br":
		wrong("branch")
	case "els":
		out = append(out, repl{rule: "branch", desc: "delete the else branch of a non-null if", text: ""})
	case "dflt":
		out = append(out, repl{rule: "branch", desc: "delete the default arm of a non-null match", text: ""})
	case "iter":
		for _, l := range []string{`1`, `true`, `new { a: 1 }`} {
			out = append(out, repl{rule: "iterator", desc: "iterate over " + l, text: l})
		}
	case "id":
		out = append(out, repl{rule: "unknown-name", desc: "rename " + s.Arg + " use " + s.Text, text: s.Text + "_zz9"})
	case "dup":
		sep := "\n"
		switch s.Arg {
		case "param", "field", "tfield", "cap", "importitem":
			sep = ", "
		}
		out = append(out, repl{rule: "duplicate", desc: "duplicate " + s.Arg, text: s.Text + sep + s.Text})
	case "gin":
		if t != nil && !t.HasAny() && Lit(t) != "" {
			out = append(out, repl{rule: "global-init", desc: "call as global initialiser", text: "zz_h9()", tail: "\nfn zz_h9() -> " + t.Source() + " { " + Lit(t) + " }\n"})
			out = append(out, repl{rule: "global-init", desc: "variable as global initialiser", text: "zz_g9", head: "let zz_g9 = " + Lit(t) + ";\n"})
			if s.Arg != "a" {
				out = append(out, repl{rule: "global-init", desc: "closure as global initialiser", text: "fn() -> int { 1 }"})
			}
		}
	case "mut":
		for i, a := range s.Alts {
			out = append(out, repl{rule: s.Arg, desc: fmt.Sprintf("explicit mutant %d: %q -> %q", i+1, clip(s.Text, 40), clip(a, 60)), text: a})
		}
	}
	return out
}

func clip(s string, n int) string {
	if len(s) > n {
		return s[:n] + "…"
	}
	return s
}

// needsSureType lists the kinds whose mutants depend on the type attribute.
var needsSureType = map[string]bool{"el": true, "idx": true, "opd": true, "bop": true, "aop": true, "arg": true, "ret": true, "tail": true, "asg": true, "br": true, "gin": true}

// Mutants produces every single-fault mutant of a parsed program. dropped counts, per rule, the
// mutants that were not produced because the site is declared unsure or its type mentions any.
func Mutants(p Parsed) (out []Mutant, dropped map[string]int) {
	dropped = map[string]int{}
	for _, s := range p.Sites {
		rs := siteRepls(s)
		if len(rs) == 0 {
			if needsSureType[s.Kind] && (s.Type == "" || MustType(s.Type).HasAny()) {
				dropped[kindRule(s.Kind)]++
			}
			continue
		}
		if s.Unsure {
			for _, r := range rs {
				dropped[r.rule]++
			}
			continue
		}
		plain := p.Plain[s.Module]
		for _, r := range rs {
			if r.text == s.Text && r.tail == "" && r.head == "" {
				continue
			}
			ls := strings.LastIndex(plain[:s.Start], "\n") + 1
			out = append(out, Mutant{SiteID: s.ID, Rule: r.rule, Ctx: s.Ctx, Tags: s.Tags, Desc: r.desc, Module: s.Module,
				Source: plain[:ls] + r.head + plain[ls:s.Start] + r.text + plain[s.End:] + r.tail})
		}
	}
	return out, dropped
}

func kindRule(kind string) string {
	switch kind {
	case "opd":
		return "operand"
	case "bop", "aop":
		return "operator"
	case "arg":
		return "argument"
	case "ret", "tail":
		return "return"
	case "asg":
		return "assignment"
	case "el":
		return "list-element"
	case "idx":
		return "index"
	case "br":
		return "branch"
	case "gin":
		return "global-init"
	}
	return kind
}

// SortedKeys helper.
func SortedKeys(m map[string]int) []string {
	ks := make([]string, 0, len(m))
	for k := range m {
		ks = append(ks, k)
	}
	sort.Strings(ks)
	return ks
}
