// Package valuni is a bounded universe of homescript types and abstract values with reference
// predicates (HasType, Conforms, Convert, StructEq, OffendingPaths) that share no code with
// /repo's cast.go / IsEqual, plus constructors of the same abstract value into BOTH value
// libraries of /repo (runtime/value and interpreter/value) and converters back
// (DESIGN.md §2.6, Appendix C).
package valuni

import (
	"encoding/json"
	"fmt"
	"math"
	"sort"
	"strconv"
	"strings"
)

// TKind is the kind of a type of the universe.
type TKind int

const (
	TInt TKind = iota
	TFloat
	TBool
	TStr
	TNull
	TRange
	TList
	TObj
	TAnyObj
	TOpt
)

// Type is a homescript type restricted to the universe of C12/C13 (no functions, no any).
type Type struct {
	K      TKind   `json:"k"`
	Elem   *Type   `json:"e,omitempty"` // list element / option inner
	Fields []Field `json:"f,omitempty"` // object fields, sorted by name
}

// Field of an object type.
type Field struct {
	Name string `json:"n"`
	T    Type   `json:"t"`
}

func Int() Type    { return Type{K: TInt} }
func Float() Type  { return Type{K: TFloat} }
func Bool() Type   { return Type{K: TBool} }
func Str() Type    { return Type{K: TStr} }
func Null() Type   { return Type{K: TNull} }
func Range() Type  { return Type{K: TRange} }
func AnyObj() Type { return Type{K: TAnyObj} }
func List(e Type) Type {
	return Type{K: TList, Elem: &e}
}
func Opt(e Type) Type {
	return Type{K: TOpt, Elem: &e}
}
func Obj(fs ...Field) Type {
	out := append([]Field{}, fs...)
	sort.Slice(out, func(i, j int) bool { return out[i].Name < out[j].Name })
	return Type{K: TObj, Fields: out}
}
func F(name string, t Type) Field { return Field{Name: name, T: t} }

// IsScalarNum reports int/float/bool (the kinds that interconvert under an explicit cast).
func (t Type) IsScalarNum() bool { return t.K == TInt || t.K == TFloat || t.K == TBool }

// Depth of a type (scalars 0).
func (t Type) Depth() int {
	switch t.K {
	case TList, TOpt:
		return 1 + t.Elem.Depth()
	case TObj:
		d := 0
		for _, f := range t.Fields {
			if x := f.T.Depth(); x > d {
				d = x
			}
		}
		return 1 + d
	}
	return 0
}

// Src renders the type in homescript source syntax (usable after `as` and in annotations).
func (t Type) Src() string {
	switch t.K {
	case TInt:
		return "int"
	case TFloat:
		return "float"
	case TBool:
		return "bool"
	case TStr:
		return "str"
	case TNull:
		return "null"
	case TRange:
		return "range"
	case TAnyObj:
		return "{ ? }"
	case TList:
		return "[" + t.Elem.Src() + "]"
	case TOpt:
		return "?" + t.Elem.Src()
	case TObj:
		if len(t.Fields) == 0 {
			return "{}"
		}
		parts := make([]string, len(t.Fields))
		for i, f := range t.Fields {
			parts[i] = f.Name + ": " + f.T.Src()
		}
		return "{ " + strings.Join(parts, ", ") + " }"
	}
	return "?"
}

func (t Type) String() string { return t.Src() }

// Shape is a coarse class name of a type used in signatures (no field names, no nesting detail).
func (t Type) Shape() string {
	switch t.K {
	case TList:
		return "list"
	case TOpt:
		return "option"
	case TObj:
		return "object"
	case TAnyObj:
		return "anyobj"
	}
	return t.Src()
}

// Equal reports structural equality of two types.
func (t Type) Equal(u Type) bool {
	if t.K != u.K {
		return false
	}
	switch t.K {
	case TList, TOpt:
		return t.Elem.Equal(*u.Elem)
	case TObj:
		if len(t.Fields) != len(u.Fields) {
			return false
		}
		for i := range t.Fields {
			if t.Fields[i].Name != u.Fields[i].Name || !t.Fields[i].T.Equal(u.Fields[i].T) {
				return false
			}
		}
	}
	return true
}

// HasKind reports whether kind k occurs anywhere in the type.
func (t Type) HasKind(k TKind) bool {
	if t.K == k {
		return true
	}
	switch t.K {
	case TList, TOpt:
		return t.Elem.HasKind(k)
	case TObj:
		for _, f := range t.Fields {
			if f.T.HasKind(k) {
				return true
			}
		}
	}
	return false
}

// VKind is the kind of an abstract value.
type VKind int

const (
	VNull VKind = iota
	VInt
	VFloat
	VBool
	VStr
	VRange
	VList
	VObj
	VAnyObj
	VNone
	VSome
)

func (k VKind) String() string {
	return [...]string{"null", "int", "float", "bool", "str", "range", "list", "object", "anyobj", "none", "some"}[k]
}

// Val is an abstract value. Objects and any-objects keep their keys sorted.
type Val struct {
	K     VKind    `json:"k"`
	I     int64    `json:"i,omitempty"`
	F     JFloat   `json:"x"`
	B     bool     `json:"b,omitempty"`
	S     string   `json:"s,omitempty"`
	RS    int64    `json:"rs,omitempty"`
	RE    int64    `json:"re,omitempty"`
	RIncl bool     `json:"ri,omitempty"`
	Elems []Val    `json:"l,omitempty"`
	Keys  []string `json:"ks,omitempty"`
	Vals  []Val    `json:"vs,omitempty"`
	Inner *Val     `json:"in,omitempty"`
}

// JFloat is a float64 that survives JSON exactly (incl. -0 and huge values).
type JFloat float64

func (f JFloat) MarshalJSON() ([]byte, error) {
	return []byte(`"` + strconv.FormatFloat(float64(f), 'g', -1, 64) + `"`), nil
}
func (f *JFloat) UnmarshalJSON(b []byte) error {
	var s string
	if err := json.Unmarshal(b, &s); err != nil {
		return err
	}
	x, err := strconv.ParseFloat(s, 64)
	*f = JFloat(x)
	return err
}

func NullV() Val           { return Val{K: VNull} }
func IntV(i int64) Val     { return Val{K: VInt, I: i} }
func FloatV(f float64) Val { return Val{K: VFloat, F: JFloat(f)} }
func BoolV(b bool) Val     { return Val{K: VBool, B: b} }
func StrV(s string) Val    { return Val{K: VStr, S: s} }
func RangeV(s, e int64, incl bool) Val {
	return Val{K: VRange, RS: s, RE: e, RIncl: incl}
}
func ListV(es ...Val) Val { return Val{K: VList, Elems: append([]Val{}, es...)} }
func NoneV() Val          { return Val{K: VNone} }
func SomeV(v Val) Val     { return Val{K: VSome, Inner: &v} }

// KV is one key/value pair for ObjV / AnyObjV.
type KV struct {
	K string
	V Val
}

func mkObj(kind VKind, kvs []KV) Val {
	s := append([]KV{}, kvs...)
	sort.SliceStable(s, func(i, j int) bool { return s[i].K < s[j].K })
	v := Val{K: kind}
	for _, kv := range s {
		v.Keys = append(v.Keys, kv.K)
		v.Vals = append(v.Vals, kv.V)
	}
	return v
}
func ObjV(kvs ...KV) Val    { return mkObj(VObj, kvs) }
func AnyObjV(kvs ...KV) Val { return mkObj(VAnyObj, kvs) }

// Get returns the field of an object / any-object value.
func (v Val) Get(key string) (Val, bool) {
	for i, k := range v.Keys {
		if k == key {
			return v.Vals[i], true
		}
	}
	return Val{}, false
}

// With returns a copy of an object with a field set (added or replaced).
func (v Val) With(key string, x Val) Val {
	var kvs []KV
	done := false
	for i, k := range v.Keys {
		if k == key {
			kvs = append(kvs, KV{k, x})
			done = true
		} else {
			kvs = append(kvs, KV{k, v.Vals[i]})
		}
	}
	if !done {
		kvs = append(kvs, KV{key, x})
	}
	return mkObj(v.K, kvs)
}

// Without returns a copy of an object with a field removed.
func (v Val) Without(key string) Val {
	var kvs []KV
	for i, k := range v.Keys {
		if k != key {
			kvs = append(kvs, KV{k, v.Vals[i]})
		}
	}
	return mkObj(v.K, kvs)
}

// Copy is a deep copy.
func (v Val) Copy() Val {
	o := v
	if v.Elems != nil {
		o.Elems = make([]Val, len(v.Elems))
		for i := range v.Elems {
			o.Elems[i] = v.Elems[i].Copy()
		}
	}
	if v.Keys != nil {
		o.Keys = append([]string{}, v.Keys...)
		o.Vals = make([]Val, len(v.Vals))
		for i := range v.Vals {
			o.Vals[i] = v.Vals[i].Copy()
		}
	}
	if v.Inner != nil {
		c := v.Inner.Copy()
		o.Inner = &c
	}
	return o
}

// String is a canonical, unambiguous rendering (for messages and hashing; not homescript syntax).
func (v Val) String() string {
	switch v.K {
	case VNull:
		return "null"
	case VInt:
		return strconv.FormatInt(v.I, 10)
	case VFloat:
		s := strconv.FormatFloat(float64(v.F), 'g', -1, 64)
		if !strings.ContainsAny(s, ".eIN") {
			s += ".0"
		}
		return s + "f"
	case VBool:
		return strconv.FormatBool(v.B)
	case VStr:
		return strconv.Quote(v.S)
	case VRange:
		if v.RIncl {
			return fmt.Sprintf("%d..=%d", v.RS, v.RE)
		}
		return fmt.Sprintf("%d..%d", v.RS, v.RE)
	case VList:
		parts := make([]string, len(v.Elems))
		for i, e := range v.Elems {
			parts[i] = e.String()
		}
		return "[" + strings.Join(parts, ", ") + "]"
	case VObj, VAnyObj:
		parts := make([]string, len(v.Keys))
		for i, k := range v.Keys {
			parts[i] = k + ": " + v.Vals[i].String()
		}
		pre := "{"
		if v.K == VAnyObj {
			pre = "{?"
			if len(parts) > 0 {
				pre += " "
			}
		}
		return pre + strings.Join(parts, ", ") + "}"
	case VNone:
		return "none"
	case VSome:
		return "Some(" + v.Inner.String() + ")"
	}
	return "?"
}

// Shape is a coarse class name of a value used in signatures.
func (v Val) Shape() string { return v.K.String() }

// HasVKind reports whether a value of kind k occurs anywhere inside v.
func (v Val) HasVKind(k VKind) bool {
	return v.Any(func(x Val) bool { return x.K == k })
}

// Any reports whether pred holds for v or any nested value.
func (v Val) Any(pred func(Val) bool) bool {
	if pred(v) {
		return true
	}
	for _, e := range v.Elems {
		if e.Any(pred) {
			return true
		}
	}
	for _, e := range v.Vals {
		if e.Any(pred) {
			return true
		}
	}
	if v.Inner != nil {
		return v.Inner.Any(pred)
	}
	return false
}

// Size is the number of nodes of the value tree.
func (v Val) Size() int {
	n := 1
	for _, e := range v.Elems {
		n += e.Size()
	}
	for _, e := range v.Vals {
		n += e.Size()
	}
	if v.Inner != nil {
		n += v.Inner.Size()
	}
	return n
}

// IsIntegralFloat reports a float value without fractional part.
func (v Val) IsIntegralFloat() bool {
	f := float64(v.F)
	return v.K == VFloat && !math.IsInf(f, 0) && !math.IsNaN(f) && math.Trunc(f) == f
}
