package valuni

import (
	"fmt"
	"sort"

	"github.com/smarthome-go/homescript/v3/homescript/analyzer/ast"
	herrors "github.com/smarthome-go/homescript/v3/homescript/errors"
	ivalue "github.com/smarthome-go/homescript/v3/homescript/interpreter/value"
	pAst "github.com/smarthome-go/homescript/v3/homescript/parser/ast"
	vvalue "github.com/smarthome-go/homescript/v3/homescript/runtime/value"
)

// AstType builds the analyzer type of /repo for a universe type.
func AstType(t Type) ast.Type {
	sp := herrors.Span{}
	switch t.K {
	case TInt:
		return ast.NewIntType(sp)
	case TFloat:
		return ast.NewFloatType(sp)
	case TBool:
		return ast.NewBoolType(sp)
	case TStr:
		return ast.NewStringType(sp)
	case TNull:
		return ast.NewNullType(sp)
	case TRange:
		return ast.NewRangeType(sp)
	case TAnyObj:
		return ast.NewAnyObjectType(sp)
	case TList:
		return ast.NewListType(AstType(*t.Elem), sp)
	case TOpt:
		return ast.NewOptionType(AstType(*t.Elem), sp)
	case TObj:
		fs := make([]ast.ObjectTypeField, 0, len(t.Fields))
		for _, f := range t.Fields {
			fs = append(fs, ast.NewObjectTypeField(pAst.NewSpannedIdent(f.Name, sp), AstType(f.T), sp))
		}
		return ast.NewObjectType(fs, sp)
	}
	panic("valuni: unknown type kind")
}

// ---------------------------------------------------------------------------------------------
// VM library (runtime/value)
// ---------------------------------------------------------------------------------------------

// ToVM builds the abstract value with the constructors of runtime/value. Every call builds
// fresh storage (no sharing between two results).
func ToVM(v Val) *vvalue.Value {
	switch v.K {
	case VNull:
		return vvalue.NewValueNull()
	case VInt:
		return vvalue.NewValueInt(v.I)
	case VFloat:
		return vvalue.NewValueFloat(float64(v.F))
	case VBool:
		return vvalue.NewValueBool(v.B)
	case VStr:
		return vvalue.NewValueString(v.S)
	case VRange:
		return vvalue.NewValueRange(*vvalue.NewValueInt(v.RS), *vvalue.NewValueInt(v.RE), v.RIncl)
	case VList:
		es := make([]*vvalue.Value, len(v.Elems))
		for i, e := range v.Elems {
			es[i] = ToVM(e)
		}
		return vvalue.NewValueList(es)
	case VObj, VAnyObj:
		m := make(map[string]*vvalue.Value, len(v.Keys))
		for i, k := range v.Keys {
			m[k] = ToVM(v.Vals[i])
		}
		if v.K == VObj {
			return vvalue.NewValueObject(m)
		}
		return vvalue.NewValueAnyObject(m)
	case VNone:
		return vvalue.NewNoneOption()
	case VSome:
		return vvalue.NewValueOption(ToVM(*v.Inner))
	}
	panic("valuni: unknown value kind")
}

// FromVM converts a runtime/value value back into the abstract form.
func FromVM(v vvalue.Value) (Val, error) {
	if v == nil {
		return Val{}, fmt.Errorf("nil value")
	}
	switch x := v.(type) {
	case vvalue.ValueNull:
		return NullV(), nil
	case vvalue.ValueInt:
		return IntV(x.Inner), nil
	case vvalue.ValueFloat:
		return FloatV(x.Inner), nil
	case vvalue.ValueBool:
		return BoolV(x.Inner), nil
	case vvalue.ValueString:
		return StrV(x.Inner), nil
	case vvalue.ValueRange:
		if x.Start == nil || x.End == nil {
			return Val{}, fmt.Errorf("range with nil bound")
		}
		s, ok1 := (*x.Start).(vvalue.ValueInt)
		e, ok2 := (*x.End).(vvalue.ValueInt)
		if !ok1 || !ok2 {
			return Val{}, fmt.Errorf("range with non-int bound")
		}
		return RangeV(s.Inner, e.Inner, x.EndIsInclusive), nil
	case vvalue.ValueList:
		if x.Values == nil {
			return Val{}, fmt.Errorf("list with nil storage")
		}
		out := Val{K: VList, Elems: make([]Val, 0, len(*x.Values))}
		for i, e := range *x.Values {
			if e == nil {
				return Val{}, fmt.Errorf("list element %d is a nil pointer", i)
			}
			c, err := FromVM(*e)
			if err != nil {
				return Val{}, fmt.Errorf("[%d]: %w", i, err)
			}
			out.Elems = append(out.Elems, c)
		}
		return out, nil
	case vvalue.ValueObject:
		return fromVMFields(VObj, x.FieldsInternal)
	case vvalue.ValueAnyObject:
		return fromVMFields(VAnyObj, x.FieldsInternal)
	case vvalue.ValueOption:
		if x.Inner == nil {
			return NoneV(), nil
		}
		c, err := FromVM(*x.Inner)
		if err != nil {
			return Val{}, fmt.Errorf("<option-inner>: %w", err)
		}
		return SomeV(c), nil
	}
	return Val{}, fmt.Errorf("value kind %v outside the universe", v.Kind())
}

func fromVMFields(kind VKind, m map[string]*vvalue.Value) (Val, error) {
	keys := make([]string, 0, len(m))
	for k := range m {
		keys = append(keys, k)
	}
	sort.Strings(keys)
	out := Val{K: kind}
	for _, k := range keys {
		if m[k] == nil {
			return Val{}, fmt.Errorf("field %s is a nil pointer", k)
		}
		c, err := FromVM(*m[k])
		if err != nil {
			return Val{}, fmt.Errorf(".%s: %w", k, err)
		}
		out.Keys = append(out.Keys, k)
		out.Vals = append(out.Vals, c)
	}
	return out, nil
}

// ---------------------------------------------------------------------------------------------
// Interpreter library (interpreter/value)
// ---------------------------------------------------------------------------------------------

// ToTree builds the abstract value with the constructors of interpreter/value.
func ToTree(v Val) *ivalue.Value {
	switch v.K {
	case VNull:
		return ivalue.NewValueNull()
	case VInt:
		return ivalue.NewValueInt(v.I)
	case VFloat:
		return ivalue.NewValueFloat(float64(v.F))
	case VBool:
		return ivalue.NewValueBool(v.B)
	case VStr:
		return ivalue.NewValueString(v.S)
	case VRange:
		return ivalue.NewValueRange(*ivalue.NewValueInt(v.RS), *ivalue.NewValueInt(v.RE), v.RIncl)
	case VList:
		es := make([]*ivalue.Value, len(v.Elems))
		for i, e := range v.Elems {
			es[i] = ToTree(e)
		}
		return ivalue.NewValueList(es)
	case VObj, VAnyObj:
		m := make(map[string]*ivalue.Value, len(v.Keys))
		for i, k := range v.Keys {
			m[k] = ToTree(v.Vals[i])
		}
		if v.K == VObj {
			return ivalue.NewValueObject(m)
		}
		return ivalue.NewValueAnyObject(m)
	case VNone:
		return ivalue.NewNoneOption()
	case VSome:
		return ivalue.NewValueOption(ToTree(*v.Inner))
	}
	panic("valuni: unknown value kind")
}

// FromTree converts an interpreter/value value back into the abstract form.
func FromTree(v ivalue.Value) (Val, error) {
	if v == nil {
		return Val{}, fmt.Errorf("nil value")
	}
	switch x := v.(type) {
	case ivalue.ValueNull:
		return NullV(), nil
	case ivalue.ValueInt:
		return IntV(x.Inner), nil
	case ivalue.ValueFloat:
		return FloatV(x.Inner), nil
	case ivalue.ValueBool:
		return BoolV(x.Inner), nil
	case ivalue.ValueString:
		return StrV(x.Inner), nil
	case ivalue.ValueRange:
		if x.Start == nil || x.End == nil {
			return Val{}, fmt.Errorf("range with nil bound")
		}
		s, ok1 := (*x.Start).(ivalue.ValueInt)
		e, ok2 := (*x.End).(ivalue.ValueInt)
		if !ok1 || !ok2 {
			return Val{}, fmt.Errorf("range with non-int bound")
		}
		return RangeV(s.Inner, e.Inner, x.EndIsInclusive), nil
	case ivalue.ValueList:
		if x.Values == nil {
			return Val{}, fmt.Errorf("list with nil storage")
		}
		out := Val{K: VList, Elems: make([]Val, 0, len(*x.Values))}
		for i, e := range *x.Values {
			if e == nil {
				return Val{}, fmt.Errorf("list element %d is a nil pointer", i)
			}
			c, err := FromTree(*e)
			if err != nil {
				return Val{}, fmt.Errorf("[%d]: %w", i, err)
			}
			out.Elems = append(out.Elems, c)
		}
		return out, nil
	case ivalue.ValueObject:
		return fromTreeFields(VObj, x.FieldsInternal)
	case ivalue.ValueAnyObject:
		return fromTreeFields(VAnyObj, x.FieldsInternal)
	case ivalue.ValueOption:
		if x.Inner == nil {
			return NoneV(), nil
		}
		c, err := FromTree(*x.Inner)
		if err != nil {
			return Val{}, fmt.Errorf("<option-inner>: %w", err)
		}
		return SomeV(c), nil
	}
	return Val{}, fmt.Errorf("value kind %v outside the universe", v.Kind())
}

func fromTreeFields(kind VKind, m map[string]*ivalue.Value) (Val, error) {
	keys := make([]string, 0, len(m))
	for k := range m {
		keys = append(keys, k)
	}
	sort.Strings(keys)
	out := Val{K: kind}
	for _, k := range keys {
		if m[k] == nil {
			return Val{}, fmt.Errorf("field %s is a nil pointer", k)
		}
		c, err := FromTree(*m[k])
		if err != nil {
			return Val{}, fmt.Errorf(".%s: %w", k, err)
		}
		out.Keys = append(out.Keys, k)
		out.Vals = append(out.Vals, c)
	}
	return out, nil
}
