package valuni

import (
	"fmt"
	"math"
	"strings"
)

// ---------------------------------------------------------------------------------------------
// Paths
// ---------------------------------------------------------------------------------------------

// PathElem is one step into a value: a field, a list index, or the inner value of an option.
type PathElem struct {
	Kind  byte   `json:"k"` // 'f' field, 'i' index, 'o' option inner
	Name  string `json:"n,omitempty"`
	Index int    `json:"i,omitempty"`
}

// Path addresses a nested value.
type Path []PathElem

func (p Path) field(n string) Path { return append(append(Path{}, p...), PathElem{Kind: 'f', Name: n}) }
func (p Path) index(i int) Path    { return append(append(Path{}, p...), PathElem{Kind: 'i', Index: i}) }
func (p Path) inner() Path         { return append(append(Path{}, p...), PathElem{Kind: 'o'}) }

// Render renders a path in the notation the implementation designed for cast errors
// (`.field`, `[index]`, `<option-inner>`); withOpt=false leaves option steps out.
func (p Path) Render(withOpt bool) string {
	var sb strings.Builder
	for _, e := range p {
		switch e.Kind {
		case 'f':
			sb.WriteString("." + e.Name)
		case 'i':
			fmt.Fprintf(&sb, "[%d]", e.Index)
		case 'o':
			if withOpt {
				sb.WriteString("<option-inner>")
			}
		}
	}
	return sb.String()
}

// HasIndex reports whether the path goes through a list element.
func (p Path) HasIndex() bool {
	for _, e := range p {
		if e.Kind == 'i' {
			return true
		}
	}
	return false
}

// Addressable reports whether the path has at least one field or index step (a path made only
// of option steps renders as the empty string: the offending value is the cast operand itself).
func (p Path) Addressable() bool {
	for _, e := range p {
		if e.Kind != 'o' {
			return true
		}
	}
	return false
}

// Offence is one reason why a value does not conform to a type.
type Offence struct {
	Path  Path   `json:"path"`
	Kind  string `json:"kind"`            // mismatch | missing | extra
	Field string `json:"field,omitempty"` // for missing / extra
	Got   VKind  `json:"got"`
	Want  string `json:"want"`
	// ViaWrap: the offence lies at or below a position where a non-option value meets an option
	// type (the "a T into an option of T" rule was applied on the way).
	ViaWrap bool `json:"via_wrap,omitempty"`
}

func (o Offence) String() string {
	p := o.Path.Render(true)
	if p == "" {
		p = "<root>"
	}
	switch o.Kind {
	case "missing":
		return fmt.Sprintf("%s: field %q missing", p, o.Field)
	case "extra":
		return fmt.Sprintf("%s: unexpected field %q", p, o.Field)
	}
	return fmt.Sprintf("%s: %s where %s expected", p, o.Got, o.Want)
}

// ---------------------------------------------------------------------------------------------
// hasType / conformsAfterConversion (DESIGN.md Appendix C)
// ---------------------------------------------------------------------------------------------

// HasType: structural, total on the universe; no conversion of any kind.
func HasType(v Val, t Type) bool {
	switch t.K {
	case TInt:
		return v.K == VInt
	case TFloat:
		return v.K == VFloat
	case TBool:
		return v.K == VBool
	case TStr:
		return v.K == VStr
	case TNull:
		return v.K == VNull
	case TRange:
		return v.K == VRange
	case TAnyObj:
		return v.K == VAnyObj
	case TList:
		if v.K != VList {
			return false
		}
		for _, e := range v.Elems {
			if !HasType(e, *t.Elem) {
				return false
			}
		}
		return true
	case TOpt:
		if v.K == VNone {
			return true
		}
		return v.K == VSome && HasType(*v.Inner, *t.Elem)
	case TObj:
		if v.K != VObj || len(v.Keys) != len(t.Fields) {
			return false
		}
		for i, f := range t.Fields {
			if v.Keys[i] != f.Name || !HasType(v.Vals[i], f.T) {
				return false
			}
		}
		return true
	}
	return false
}

func isNumKind(k VKind) bool { return k == VInt || k == VFloat || k == VBool }

// Offences lists every reason why v does not conform to t after the permitted conversions:
// bool/int/float among each other at scalar leaves (only when explicit), object -> any-object,
// and x -> ?T when x conforms to T. Empty result = conforming.
func Offences(v Val, t Type, explicit bool) []Offence {
	var out []Offence
	offences(v, t, explicit, nil, false, &out)
	return out
}

// Conforms is conformsAfterConversion of Appendix C.
func Conforms(v Val, t Type, explicit bool) bool { return len(Offences(v, t, explicit)) == 0 }

func offences(v Val, t Type, explicit bool, p Path, wrap bool, out *[]Offence) {
	mismatch := func() {
		*out = append(*out, Offence{Path: p, Kind: "mismatch", Got: v.K, Want: t.Shape(), ViaWrap: wrap})
	}
	switch t.K {
	case TInt, TFloat, TBool:
		want := map[TKind]VKind{TInt: VInt, TFloat: VFloat, TBool: VBool}[t.K]
		if v.K == want || (explicit && isNumKind(v.K)) {
			return
		}
		mismatch()
	case TStr:
		if v.K != VStr {
			mismatch()
		}
	case TNull:
		if v.K != VNull {
			mismatch()
		}
	case TRange:
		if v.K != VRange {
			mismatch()
		}
	case TAnyObj:
		if v.K != VAnyObj && v.K != VObj {
			mismatch()
		}
	case TList:
		if v.K != VList {
			mismatch()
			return
		}
		for i, e := range v.Elems {
			offences(e, *t.Elem, explicit, p.index(i), wrap, out)
		}
	case TOpt:
		switch v.K {
		case VNone:
		case VSome:
			offences(*v.Inner, *t.Elem, explicit, p.inner(), wrap, out)
		default:
			// a T into an option of T
			offences(v, *t.Elem, explicit, p, true, out)
		}
	case TObj:
		if v.K != VObj {
			mismatch()
			return
		}
		for _, f := range t.Fields {
			x, ok := v.Get(f.Name)
			if !ok {
				*out = append(*out, Offence{Path: p, Kind: "missing", Field: f.Name, Got: v.K, Want: t.Shape(), ViaWrap: wrap})
				continue
			}
			offences(x, f.T, explicit, p.field(f.Name), wrap, out)
		}
		for _, k := range v.Keys {
			found := false
			for _, f := range t.Fields {
				if f.Name == k {
					found = true
				}
			}
			if !found {
				*out = append(*out, Offence{Path: p, Kind: "extra", Field: k, Got: v.K, Want: t.Shape(), ViaWrap: wrap})
			}
		}
	}
}

// Convert is the reference conversion: the value a sound boundary admits for (v, t). ok=false
// when v does not conform. exact=false when a float->int conversion is outside the range in which
// truncation is unambiguous (the numeric result is then not compared).
func Convert(v Val, t Type, explicit bool) (res Val, ok bool, exact bool) {
	if !Conforms(v, t, explicit) {
		return Val{}, false, false
	}
	exact = true
	res = convert(v, t, &exact)
	return res, true, exact
}

func convert(v Val, t Type, exact *bool) Val {
	switch t.K {
	case TInt:
		switch v.K {
		case VFloat:
			f := float64(v.F)
			if math.IsNaN(f) || math.Abs(f) >= 9.0e18 {
				*exact = false
				return IntV(0)
			}
			return IntV(int64(math.Trunc(f)))
		case VBool:
			if v.B {
				return IntV(1)
			}
			return IntV(0)
		}
		return v
	case TFloat:
		switch v.K {
		case VInt:
			return FloatV(float64(v.I))
		case VBool:
			if v.B {
				return FloatV(1)
			}
			return FloatV(0)
		}
		return v
	case TBool:
		switch v.K {
		case VInt:
			return BoolV(v.I != 0)
		case VFloat:
			return BoolV(float64(v.F) != 0)
		}
		return v
	case TAnyObj:
		if v.K == VObj {
			o := v.Copy()
			o.K = VAnyObj
			return o
		}
		return v
	case TList:
		o := Val{K: VList, Elems: make([]Val, len(v.Elems))}
		for i, e := range v.Elems {
			o.Elems[i] = convert(e, *t.Elem, exact)
		}
		return o
	case TOpt:
		switch v.K {
		case VNone:
			return v
		case VSome:
			return SomeV(convert(*v.Inner, *t.Elem, exact))
		default:
			return SomeV(convert(v, *t.Elem, exact))
		}
	case TObj:
		var kvs []KV
		for _, f := range t.Fields {
			x, _ := v.Get(f.Name)
			kvs = append(kvs, KV{f.Name, convert(x, f.T, exact)})
		}
		return ObjV(kvs...)
	}
	return v
}

// ---------------------------------------------------------------------------------------------
// structEq
// ---------------------------------------------------------------------------------------------

// StructEq: same kind and same structural content. Floats compare numerically (the universe is
// NaN-free), ranges by start, end and inclusivity, objects by key set and per-key content.
func StructEq(a, b Val) bool {
	if a.K != b.K {
		return false
	}
	switch a.K {
	case VNull, VNone:
		return true
	case VInt:
		return a.I == b.I
	case VFloat:
		return float64(a.F) == float64(b.F)
	case VBool:
		return a.B == b.B
	case VStr:
		return a.S == b.S
	case VRange:
		return a.RS == b.RS && a.RE == b.RE && a.RIncl == b.RIncl
	case VList:
		if len(a.Elems) != len(b.Elems) {
			return false
		}
		for i := range a.Elems {
			if !StructEq(a.Elems[i], b.Elems[i]) {
				return false
			}
		}
		return true
	case VObj, VAnyObj:
		if len(a.Keys) != len(b.Keys) {
			return false
		}
		for i := range a.Keys {
			if a.Keys[i] != b.Keys[i] || !StructEq(a.Vals[i], b.Vals[i]) {
				return false
			}
		}
		return true
	case VSome:
		return StructEq(*a.Inner, *b.Inner)
	}
	return false
}

// Identical is StructEq that additionally distinguishes -0.0 from 0.0 (bit-level floats); used
// where a value must come back *unchanged*, e.g. through Clone.
func Identical(a, b Val) bool {
	if !StructEq(a, b) {
		return false
	}
	same := true
	var walk func(x, y Val)
	walk = func(x, y Val) {
		if x.K == VFloat && math.Signbit(float64(x.F)) != math.Signbit(float64(y.F)) {
			same = false
		}
		for i := range x.Elems {
			walk(x.Elems[i], y.Elems[i])
		}
		for i := range x.Vals {
			walk(x.Vals[i], y.Vals[i])
		}
		if x.Inner != nil {
			walk(*x.Inner, *y.Inner)
		}
	}
	walk(a, b)
	return same
}

// At returns the sub-value at a path (option steps descend into Some).
func (v Val) At(p Path) (Val, bool) {
	cur := v
	for _, e := range p {
		switch e.Kind {
		case 'f':
			x, ok := cur.Get(e.Name)
			if !ok {
				return Val{}, false
			}
			cur = x
		case 'i':
			if cur.K != VList || e.Index < 0 || e.Index >= len(cur.Elems) {
				return Val{}, false
			}
			cur = cur.Elems[e.Index]
		case 'o':
			if cur.K != VSome {
				return Val{}, false
			}
			cur = *cur.Inner
		}
	}
	return cur, true
}

// ---------------------------------------------------------------------------------------------
// Construct classifiers (which (value, type) pairs contain a given boundary situation)
// ---------------------------------------------------------------------------------------------

// Meeting is one (sub-value, sub-type) pair the conformance descent visits.
type Meeting struct {
	V    Val
	T    Type
	Path Path
	// Wrapped: v is a non-option meeting an option type (the T-into-?T rule applies here).
	Wrapped bool
}

// Meetings lists every (sub-value, sub-type) pair the conformance descent visits, in pre-order.
// Below a kind mismatch nothing is visited.
func Meetings(v Val, t Type) []Meeting {
	var out []Meeting
	var walk func(v Val, t Type, p Path)
	walk = func(v Val, t Type, p Path) {
		m := Meeting{V: v, T: t, Path: p}
		switch t.K {
		case TList:
			out = append(out, m)
			if v.K == VList {
				for i, e := range v.Elems {
					walk(e, *t.Elem, p.index(i))
				}
			}
		case TOpt:
			switch v.K {
			case VNone:
				out = append(out, m)
			case VSome:
				out = append(out, m)
				walk(*v.Inner, *t.Elem, p.inner())
			default:
				m.Wrapped = true
				out = append(out, m)
				walk(v, *t.Elem, p)
			}
		case TObj:
			out = append(out, m)
			if v.K == VObj {
				for _, f := range t.Fields {
					if x, ok := v.Get(f.Name); ok {
						walk(x, f.T, p.field(f.Name))
					}
				}
			}
		default:
			out = append(out, m)
		}
	}
	walk(v, t, nil)
	return out
}

// WrapNeedsWork: somewhere a non-option value meets ?T without already having type T (so the
// boundary must check or convert it before wrapping).
func WrapNeedsWork(v Val, t Type) bool {
	for _, m := range Meetings(v, t) {
		if m.Wrapped && !HasType(m.V, *m.T.Elem) {
			return true
		}
	}
	return false
}

// MeetsAnyObjValue: somewhere an any-object value meets the type {?}.
func MeetsAnyObjValue(v Val, t Type) bool {
	for _, m := range Meetings(v, t) {
		if !m.Wrapped && m.T.K == TAnyObj && m.V.K == VAnyObj {
			return true
		}
	}
	return false
}

// MeetsObjAsAnyObj: somewhere an object value meets the type {?} (object -> any-object).
func MeetsObjAsAnyObj(v Val, t Type) bool {
	for _, m := range Meetings(v, t) {
		if !m.Wrapped && m.T.K == TAnyObj && m.V.K == VObj {
			return true
		}
	}
	return false
}

// UsesWrap: somewhere the T-into-?T rule applies.
func UsesWrap(v Val, t Type) bool {
	for _, m := range Meetings(v, t) {
		if m.Wrapped {
			return true
		}
	}
	return false
}

// ConvertLaxWrap models a boundary that wraps a non-option value meeting ?T *without checking or
// converting it* and is otherwise exact. It is used only to attribute an observed failure to that
// specific behaviour (signature detail "opt-wrap"); it never decides a verdict.
func ConvertLaxWrap(v Val, t Type, explicit bool) (Val, bool) {
	ok := true
	var conv func(v Val, t Type) Val
	conv = func(v Val, t Type) Val {
		switch t.K {
		case TOpt:
			switch v.K {
			case VNone:
				return v
			case VSome:
				return SomeV(conv(*v.Inner, *t.Elem))
			default:
				return SomeV(v)
			}
		case TList:
			if v.K != VList {
				ok = false
				return v
			}
			o := Val{K: VList, Elems: make([]Val, len(v.Elems))}
			for i, e := range v.Elems {
				o.Elems[i] = conv(e, *t.Elem)
			}
			return o
		case TObj:
			if v.K != VObj || len(v.Keys) != len(t.Fields) {
				ok = false
				return v
			}
			var kvs []KV
			for _, f := range t.Fields {
				x, found := v.Get(f.Name)
				if !found {
					ok = false
					return v
				}
				kvs = append(kvs, KV{f.Name, conv(x, f.T)})
			}
			return ObjV(kvs...)
		default:
			if !Conforms(v, t, explicit) {
				ok = false
				return v
			}
			x := true
			return convert(v, t, &x)
		}
	}
	r := conv(v, t)
	return r, ok
}

// HasNestedOption reports ??T somewhere in the type (conversion results are then ambiguous).
func (t Type) HasNestedOption() bool {
	switch t.K {
	case TOpt:
		return t.Elem.K == TOpt || t.Elem.HasNestedOption()
	case TList:
		return t.Elem.HasNestedOption()
	case TObj:
		for _, f := range t.Fields {
			if f.T.HasNestedOption() {
				return true
			}
		}
	}
	return false
}
