package valuni

import (
	"math"
	"sort"
	"strconv"
	"strings"
)

// ---------------------------------------------------------------------------------------------
// Types
// ---------------------------------------------------------------------------------------------

// Leaves are the depth-0 types of the universe.
func Leaves() []Type {
	return []Type{Int(), Float(), Bool(), Str(), Null(), Range(), AnyObj()}
}

// TypesDepth1 enumerates every type of depth exactly 1: [L], ?L, {a:L}, {a:L,b:M}.
func TypesDepth1() []Type {
	var out []Type
	ls := Leaves()
	for _, l := range ls {
		out = append(out, List(l))
	}
	for _, l := range ls {
		out = append(out, Opt(l))
	}
	for _, l := range ls {
		out = append(out, Obj(F("a", l)))
	}
	for _, l := range ls {
		for _, m := range ls {
			out = append(out, Obj(F("a", l), F("b", m)))
		}
	}
	return out
}

// TypesDepth2 enumerates the depth-2 types of the universe: [D1], ?D1, {a:D1} for every depth-1
// type D1, and two-field objects {a:D1,b:M} / {a:int,b:D1} with M in {int, ?str} (the full square
// of two-field objects would be 5.9 k types; the slice keeps every D1 in both field positions).
func TypesDepth2() []Type {
	var out []Type
	d1 := TypesDepth1()
	for _, t := range d1 {
		out = append(out, List(t))
	}
	for _, t := range d1 {
		out = append(out, Opt(t))
	}
	for _, t := range d1 {
		out = append(out, Obj(F("a", t)))
	}
	for _, t := range d1 {
		out = append(out, Obj(F("a", t), F("b", Int())))
		out = append(out, Obj(F("a", t), F("b", Opt(Str()))))
	}
	for _, t := range d1 {
		out = append(out, Obj(F("a", Int()), F("b", t)))
	}
	return out
}

// TypesUpTo2 is the exhaustively explored type universe (depth <= 2).
func TypesUpTo2() []Type {
	out := append([]Type{}, Leaves()...)
	out = append(out, TypesDepth1()...)
	out = append(out, TypesDepth2()...)
	return out
}

// Next is the minimal PRNG interface the samplers need (fw.Rng satisfies it).
type Next interface{ Intn(n int) int }

// SampleDepth3 draws a random type of depth 3.
func SampleDepth3(r Next) Type {
	d2 := TypesDepth2()
	t := d2[r.Intn(len(d2))]
	switch r.Intn(4) {
	case 0:
		return List(t)
	case 1:
		return Opt(t)
	case 2:
		return Obj(F("a", t))
	default:
		ls := Leaves()
		return Obj(F("a", ls[r.Intn(len(ls))]), F("b", t))
	}
}

// ---------------------------------------------------------------------------------------------
// Typed values
// ---------------------------------------------------------------------------------------------

// Unicode strings of the universe (all NFC-normalised, no quotes or backslashes so that they can
// be embedded in source and JSON literals verbatim).
var uniStrings = []string{"", "a", "héllo wörld ✓", "日本語", "x y", "😀 z"}

// LeafValues returns the typed value pool of a leaf type; n bounds the pool size (0 = all).
func LeafValues(t Type, n int) []Val {
	var out []Val
	switch t.K {
	case TInt:
		out = []Val{IntV(0), IntV(1), IntV(-1), IntV(42), IntV(math.MaxInt64), IntV(math.MinInt64), IntV(1 << 53)}
	case TFloat:
		out = []Val{FloatV(1.5), FloatV(6.02214076e23), FloatV(2), FloatV(0), FloatV(-0.25), FloatV(0.30000000000000004), FloatV(1e15), FloatV(0.1), FloatV(-3)}
	case TBool:
		out = []Val{BoolV(true), BoolV(false)}
	case TStr:
		for _, s := range uniStrings {
			out = append(out, StrV(s))
		}
	case TNull:
		out = []Val{NullV()}
	case TRange:
		out = []Val{RangeV(1, 3, false), RangeV(1, 3, true), RangeV(5, 0, false), RangeV(0, 0, false)}
	case TAnyObj:
		out = []Val{
			AnyObjV(),
			AnyObjV(KV{"a", IntV(1)}),
			AnyObjV(KV{"a", StrV("x")}, KV{"b", ListV(IntV(1), IntV(2))}, KV{"f", FloatV(2.5)}),
			AnyObjV(KV{"k", ObjV(KV{"z", BoolV(true)})}),
		}
	}
	if n > 0 && len(out) > n {
		out = out[:n]
	}
	return out
}

// Typed returns values v with HasType(v, t): a small pool per type that always contains empty
// containers, one/two/three element lists, none and Some, and differing leaf contents. width
// bounds the number of alternatives taken per position (>= 2).
func Typed(t Type, width int) []Val {
	if width < 2 {
		width = 2
	}
	switch t.K {
	case TList:
		es := Typed(*t.Elem, width)
		out := []Val{ListV()}
		out = append(out, ListV(es[0]))
		if len(es) > 1 {
			out = append(out, ListV(es[0], es[1]))
			out = append(out, ListV(es[1], es[0], es[len(es)-1]))
		} else {
			out = append(out, ListV(es[0], es[0]))
		}
		return out
	case TOpt:
		es := Typed(*t.Elem, width)
		out := []Val{NoneV()}
		for i, e := range es {
			if i >= width {
				break
			}
			out = append(out, SomeV(e))
		}
		return out
	case TObj:
		// zip-like product: alternative i takes the i-th value of every field (wrapping), plus one
		// value that differs from alternative 0 in the last field only
		pools := make([][]Val, len(t.Fields))
		max := 0
		for i, f := range t.Fields {
			pools[i] = Typed(f.T, width)
			if len(pools[i]) > max {
				max = len(pools[i])
			}
		}
		if max > width+1 {
			max = width + 1
		}
		var out []Val
		for a := 0; a < max; a++ {
			var kvs []KV
			for i, f := range t.Fields {
				kvs = append(kvs, KV{f.Name, pools[i][a%len(pools[i])]})
			}
			out = append(out, ObjV(kvs...))
		}
		if len(t.Fields) > 1 {
			last := len(t.Fields) - 1
			if len(pools[last]) > 1 {
				var kvs []KV
				for i, f := range t.Fields {
					x := pools[i][0]
					if i == last {
						x = pools[i][1]
					}
					kvs = append(kvs, KV{f.Name, x})
				}
				cand := ObjV(kvs...)
				dup := false
				for _, o := range out {
					if StructEq(o, cand) {
						dup = true
					}
				}
				if !dup {
					out = append(out, cand)
				}
			}
		}
		return out
	default:
		return LeafValues(t, width+1)
	}
}

// Foreign returns one representative value of every value kind (used as "wrong element").
func Foreign() []Val {
	return []Val{
		IntV(7), FloatV(2.5), BoolV(true), StrV("x"), NullV(), RangeV(0, 1, false),
		ListV(), ListV(IntV(1)), ObjV(KV{"z", IntV(1)}), ObjV(), AnyObjV(KV{"a", IntV(1)}), NoneV(), SomeV(IntV(1)),
	}
}

// ---------------------------------------------------------------------------------------------
// Near misses
// ---------------------------------------------------------------------------------------------

// replaceAt returns a copy of v with the sub-value at path p replaced.
func replaceAt(v Val, p Path, x Val) Val {
	if len(p) == 0 {
		return x
	}
	o := v.Copy()
	switch p[0].Kind {
	case 'f':
		cur, _ := o.Get(p[0].Name)
		return o.With(p[0].Name, replaceAt(cur, p[1:], x))
	case 'i':
		o.Elems[p[0].Index] = replaceAt(o.Elems[p[0].Index], p[1:], x)
	case 'o':
		n := replaceAt(*o.Inner, p[1:], x)
		o.Inner = &n
	}
	return o
}

// Positions lists the paths of all nested values of v (pre-order), descending into lists, objects,
// any-objects are NOT descended into (their content is untyped), options.
func Positions(v Val) []Path {
	var out []Path
	var walk func(x Val, p Path)
	walk = func(x Val, p Path) {
		out = append(out, p)
		switch x.K {
		case VList:
			for i, e := range x.Elems {
				walk(e, p.index(i))
			}
		case VObj:
			for i, k := range x.Keys {
				walk(x.Vals[i], p.field(k))
			}
		case VSome:
			walk(*x.Inner, p.inner())
		}
	}
	walk(v, nil)
	return out
}

// NearMisses derives from a value every single-fault variant: at every position the sub-value
// replaced by one representative of every kind, every object with one field removed, one extra
// field added, or turned into an any-object with the same fields, every Some unwrapped, every
// non-option wrapped into Some. The variants are NOT filtered: some still conform (e.g. int
// replaced by int 7, object -> any-object under {?}); the reference predicate classifies them.
func NearMisses(v Val) []Val {
	var out []Val
	for _, p := range Positions(v) {
		sub, _ := v.At(p)
		for _, f := range Foreign() {
			out = append(out, replaceAt(v, p, f))
		}
		switch sub.K {
		case VObj:
			for _, k := range sub.Keys {
				out = append(out, replaceAt(v, p, sub.Without(k)))
			}
			out = append(out, replaceAt(v, p, sub.With("zz", IntV(1))))
			a := sub.Copy()
			a.K = VAnyObj
			out = append(out, replaceAt(v, p, a))
		case VAnyObj:
			a := sub.Copy()
			a.K = VObj
			out = append(out, replaceAt(v, p, a))
		case VSome:
			out = append(out, replaceAt(v, p, *sub.Inner))
		case VList:
			if len(sub.Elems) > 0 {
				out = append(out, replaceAt(v, p, ListV(sub.Elems[:len(sub.Elems)-1]...)))
			}
		}
		if sub.K != VSome && sub.K != VNone {
			out = append(out, replaceAt(v, p, SomeV(sub)))
		}
	}
	return out
}

// Candidates returns, for a target type, the de-duplicated list of values to push across the
// boundary: the typed pool, every near miss of every typed value, and every foreign value.
func Candidates(t Type, width int) []Val {
	seen := map[string]bool{}
	var out []Val
	add := func(v Val) {
		k := v.String()
		if !seen[k] {
			seen[k] = true
			out = append(out, v)
		}
	}
	typed := Typed(t, width)
	for _, v := range typed {
		add(v)
	}
	for _, v := range typed {
		for _, m := range NearMisses(v) {
			add(m)
		}
	}
	for _, f := range Foreign() {
		add(f)
	}
	return out
}

// ---------------------------------------------------------------------------------------------
// Renderings into source / JSON
// ---------------------------------------------------------------------------------------------

// JSONText renders a value as JSON text under the mapping every JSON reader of the language uses:
// none <-> null, int <-> integer literal, float <-> literal with a fraction, str, bool, list <->
// array, object <-> object. ok=false for values JSON cannot carry unambiguously (ranges, null
// values, any-objects, Some, integral floats, strings needing escapes).
func JSONText(v Val) (string, bool) {
	switch v.K {
	case VNone:
		return "null", true
	case VInt:
		return strconv.FormatInt(v.I, 10), true
	case VFloat:
		f := float64(v.F)
		if v.IsIntegralFloat() || math.IsInf(f, 0) || math.IsNaN(f) {
			return "", false
		}
		s := strconv.FormatFloat(f, 'f', -1, 64)
		return s, true
	case VBool:
		return strconv.FormatBool(v.B), true
	case VStr:
		if strings.ContainsAny(v.S, "\"'\\\n\r\t") {
			return "", false
		}
		return `"` + v.S + `"`, true
	case VList:
		parts := make([]string, len(v.Elems))
		for i, e := range v.Elems {
			s, ok := JSONText(e)
			if !ok {
				return "", false
			}
			parts[i] = s
		}
		return "[" + strings.Join(parts, ",") + "]", true
	case VObj:
		parts := make([]string, len(v.Keys))
		for i, k := range v.Keys {
			s, ok := JSONText(v.Vals[i])
			if !ok {
				return "", false
			}
			parts[i] = `"` + k + `":` + s
		}
		return "{" + strings.Join(parts, ",") + "}", true
	}
	return "", false
}

// Literal renders a typed value as a homescript expression of static type t. ok=false when the
// value cannot be written as an expression of that type (e.g. float values whose decimal expansion
// is unreasonable, strings needing escapes).
func Literal(v Val, t Type) (string, bool) {
	if !HasType(v, t) {
		return "", false
	}
	switch v.K {
	case VNull:
		return "null", true
	case VInt:
		if v.I == math.MinInt64 {
			return "(-9223372036854775807 - 1)", true
		}
		if v.I < 0 {
			return "(-" + strconv.FormatInt(-v.I, 10) + ")", true
		}
		return strconv.FormatInt(v.I, 10), true
	case VFloat:
		f := float64(v.F)
		if math.IsInf(f, 0) || math.IsNaN(f) || (f != 0 && (math.Abs(f) < 1e-6 || math.Abs(f) > 1e18)) {
			return "", false
		}
		s := strconv.FormatFloat(math.Abs(f), 'f', -1, 64)
		if !strings.Contains(s, ".") {
			s += ".0"
		}
		if math.Signbit(f) {
			return "(-" + s + ")", true
		}
		return s, true
	case VBool:
		return strconv.FormatBool(v.B), true
	case VStr:
		if strings.ContainsAny(v.S, "\"'\\\n\r\t") {
			return "", false
		}
		return `"` + v.S + `"`, true
	case VRange:
		op := ".."
		if v.RIncl {
			op = "..="
		}
		s, _ := Literal(IntV(v.RS), Int())
		e, _ := Literal(IntV(v.RE), Int())
		return "(" + s + op + e + ")", true
	case VNone:
		return "none", true
	case VSome:
		in, ok := Literal(*v.Inner, *t.Elem)
		if !ok {
			return "", false
		}
		return "(?" + in + ")", true
	case VList:
		parts := make([]string, len(v.Elems))
		for i, e := range v.Elems {
			s, ok := Literal(e, *t.Elem)
			if !ok {
				return "", false
			}
			parts[i] = s
		}
		if len(parts) == 0 {
			// an empty list literal has no element type of its own
			return "([] as [" + t.Elem.Src() + "])", true
		}
		return "[" + strings.Join(parts, ", ") + "]", true
	case VObj:
		parts := make([]string, len(v.Keys))
		for i, k := range v.Keys {
			s, ok := Literal(v.Vals[i], t.Fields[i].T)
			if !ok {
				return "", false
			}
			parts[i] = k + ": " + s
		}
		if len(parts) == 0 {
			return "new {}", true
		}
		return "new { " + strings.Join(parts, ", ") + " }", true
	case VAnyObj:
		// an any-object is written as a cast object literal; its content must itself be writable
		// as literals of the natural type of each value
		if len(v.Keys) == 0 {
			return "new { ? }", true
		}
		parts := make([]string, len(v.Keys))
		for i, k := range v.Keys {
			nt, ok := NaturalType(v.Vals[i])
			if !ok {
				return "", false
			}
			s, ok := Literal(v.Vals[i], nt)
			if !ok {
				return "", false
			}
			parts[i] = k + ": " + s
		}
		return "(new { " + strings.Join(parts, ", ") + " } as { ? })", true
	}
	return "", false
}

// NaturalType infers the type an expression for v would have (ok=false for values without a
// unique natural type: empty lists, none, heterogeneous lists).
func NaturalType(v Val) (Type, bool) {
	switch v.K {
	case VNull:
		return Null(), true
	case VInt:
		return Int(), true
	case VFloat:
		return Float(), true
	case VBool:
		return Bool(), true
	case VStr:
		return Str(), true
	case VRange:
		return Range(), true
	case VAnyObj:
		return AnyObj(), true
	case VSome:
		t, ok := NaturalType(*v.Inner)
		return Opt(t), ok
	case VList:
		if len(v.Elems) == 0 {
			return Type{}, false
		}
		t, ok := NaturalType(v.Elems[0])
		if !ok {
			return Type{}, false
		}
		for _, e := range v.Elems[1:] {
			u, ok := NaturalType(e)
			if !ok || !u.Equal(t) {
				return Type{}, false
			}
		}
		return List(t), true
	case VObj:
		var fs []Field
		for i, k := range v.Keys {
			t, ok := NaturalType(v.Vals[i])
			if !ok {
				return Type{}, false
			}
			fs = append(fs, F(k, t))
		}
		return Obj(fs...), true
	}
	return Type{}, false
}

// SortedStrings returns a sorted copy.
func SortedStrings(xs []string) []string {
	out := append([]string{}, xs...)
	sort.Strings(out)
	return out
}

// ---------------------------------------------------------------------------------------------
// Pools for the equality / clone / serialisation laws (C13)
// ---------------------------------------------------------------------------------------------

// TypedPos is a position inside a typed value together with the static type at that position.
type TypedPos struct {
	Path Path
	T    Type
	V    Val
}

// TypedPositions lists every position of a value of type t with its static type (pre-order).
// The content of any-objects is untyped and not descended into.
func TypedPositions(v Val, t Type) []TypedPos {
	var out []TypedPos
	var walk func(v Val, t Type, p Path)
	walk = func(v Val, t Type, p Path) {
		out = append(out, TypedPos{Path: p, T: t, V: v})
		switch t.K {
		case TList:
			for i, e := range v.Elems {
				walk(e, *t.Elem, p.index(i))
			}
		case TOpt:
			if v.K == VSome {
				walk(*v.Inner, *t.Elem, p.inner())
			}
		case TObj:
			for _, f := range t.Fields {
				if x, ok := v.Get(f.Name); ok {
					walk(x, f.T, p.field(f.Name))
				}
			}
		}
	}
	walk(v, t, nil)
	return out
}

// AnyObjVariants returns near misses of an any-object value that are any-objects again: a key on
// one side only (added / removed), a changed value under the same key. withClash adds variants in
// which the same key holds a value of a different kind.
func AnyObjVariants(v Val, withClash bool) []Val {
	var out []Val
	out = append(out, v.With("zz", IntV(1)))
	if len(v.Keys) > 0 {
		last := v.Keys[len(v.Keys)-1]
		out = append(out, v.Without(last))
		cur, _ := v.Get(last)
		switch cur.K {
		case VInt:
			out = append(out, v.With(last, IntV(cur.I+1)))
		case VStr:
			out = append(out, v.With(last, StrV(cur.S+"!")))
		case VList:
			out = append(out, v.With(last, ListV(append(append([]Val{}, cur.Elems...), IntV(9))...)))
		case VObj:
			out = append(out, v.With(last, cur.With("q", IntV(0))))
		}
		if withClash {
			switch cur.K {
			case VStr:
				out = append(out, v.With(last, IntV(1)))
			default:
				out = append(out, v.With(last, StrV("s")))
			}
		}
	}
	return out
}

// EqPool returns up to max values of type t built so that equal values, values differing in one
// position only (last element, one field, Some vs none, inclusive vs exclusive range, a key on one
// side only for any-objects) and unrelated values all occur. clash: also any-objects that hold
// values of different kinds under the same key.
func EqPool(t Type, width, max int, clash bool) []Val {
	seen := map[string]bool{}
	var out []Val
	add := func(v Val) {
		if !HasType(v, t) {
			return
		}
		k := v.String()
		if !seen[k] {
			seen[k] = true
			out = append(out, v)
		}
	}
	typed := Typed(t, width)
	for _, v := range typed {
		add(v)
	}
	for _, v := range typed {
		for _, tp := range TypedPositions(v, t) {
			for _, alt := range Typed(tp.T, 2) {
				add(replaceAt(v, tp.Path, alt))
			}
			switch tp.T.K {
			case TList:
				if n := len(tp.V.Elems); n > 0 {
					add(replaceAt(v, tp.Path, ListV(tp.V.Elems[:n-1]...)))
					add(replaceAt(v, tp.Path, ListV(append(append([]Val{}, tp.V.Elems...), tp.V.Elems[0])...)))
				}
			case TAnyObj:
				for _, alt := range AnyObjVariants(tp.V, clash) {
					add(replaceAt(v, tp.Path, alt))
				}
			case TRange:
				add(replaceAt(v, tp.Path, RangeV(tp.V.RS, tp.V.RE, !tp.V.RIncl)))
				add(replaceAt(v, tp.Path, RangeV(tp.V.RS, tp.V.RE+1, tp.V.RIncl)))
			case TFloat:
				add(replaceAt(v, tp.Path, FloatV(float64(tp.V.F)+0.5)))
				// the closest distinct values: equality must be exact, not approximate
				add(replaceAt(v, tp.Path, FloatV(math.Nextafter(float64(tp.V.F), math.Inf(1)))))
				add(replaceAt(v, tp.Path, FloatV(float64(tp.V.F)*(1+6e-10)+5e-324)))
			case TInt:
				if tp.V.I < math.MaxInt64 {
					add(replaceAt(v, tp.Path, IntV(tp.V.I+1)))
				}
				add(replaceAt(v, tp.Path, IntV(1<<53+1)))
				add(replaceAt(v, tp.Path, IntV(math.MaxInt64)))
			}
		}
	}
	if max > 0 && len(out) > max {
		// keep the typed pool, then an even stride over the variants
		keep := append([]Val{}, out[:len(typed)]...)
		rest := out[len(typed):]
		want := max - len(keep)
		for i := 0; i < want; i++ {
			keep = append(keep, rest[i*len(rest)/want])
		}
		out = keep
	}
	return out
}

// KindClash reports whether two values hold values of different kinds under the same any-object
// key somewhere (comparing them takes the implementation outside "values of one static type"
// only in the untyped content of {?}).
func KindClash(a, b Val) bool {
	isOpt := func(k VKind) bool { return k == VNone || k == VSome }
	if a.K != b.K {
		return !(isOpt(a.K) && isOpt(b.K))
	}
	switch a.K {
	case VList:
		for i := range a.Elems {
			if i < len(b.Elems) && KindClash(a.Elems[i], b.Elems[i]) {
				return true
			}
		}
	case VObj, VAnyObj:
		for i, k := range a.Keys {
			if x, ok := b.Get(k); ok && KindClash(a.Vals[i], x) {
				return true
			}
		}
	case VSome:
		return KindClash(*a.Inner, *b.Inner)
	}
	return false
}
