module hv

go 1.21

require (
	github.com/anishathalye/porcupine v1.3.0
	github.com/smarthome-go/homescript/v3 v3.0.0
	golang.org/x/text v0.9.0
)

require (
	github.com/agnivade/levenshtein v1.1.1 // indirect
	github.com/davecgh/go-spew v1.1.1 // indirect
)

replace github.com/smarthome-go/homescript/v3 => /repo
