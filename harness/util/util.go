// Package util holds small helpers shared by the property packages.
package util

import (
	"os"
	"path/filepath"
	"strings"

	"hv/drive"
)

// Corpus reads the .hms files shipped with the repository (seed corpus).
func Corpus() map[string]string {
	out := map[string]string{}
	for _, dir := range []string{"/repo/examples", "/repo/tests"} {
		files, _ := filepath.Glob(filepath.Join(dir, "*.hms"))
		for _, f := range files {
			b, err := os.ReadFile(f)
			if err == nil {
				out[filepath.Base(dir)+"/"+filepath.Base(f)] = string(b)
			}
		}
	}
	return out
}

// Clip shortens a string for messages.
func Clip(s string, n int) string {
	if len(s) > n {
		return s[:n] + "…"
	}
	return s
}

// FirstFrame returns the first element of a ' < ' separated frame list.
func FirstFrame(stack string) string {
	if i := strings.Index(stack, " < "); i >= 0 {
		return stack[:i]
	}
	return stack
}

// NormPanic removes the variable parts (numbers, quoted text) of a panic message.
func NormPanic(s string) string {
	s = drive.FirstLine(s)
	var sb strings.Builder
	inDigits := false
	for _, r := range s {
		if r >= '0' && r <= '9' {
			if !inDigits {
				sb.WriteByte('N')
			}
			inDigits = true
			continue
		}
		inDigits = false
		sb.WriteRune(r)
	}
	out := sb.String()
	if len(out) > 80 {
		out = out[:80]
	}
	return out
}
