// hvgen: development tool: prints the generated program for (seed, size, preset).
package main

import (
	"fmt"
	"os"
	"strconv"

	"hv/prog"
	"hv/props/c01"
)

func main() {
	seed, _ := strconv.ParseUint(os.Args[1], 10, 64)
	size, _ := strconv.Atoi(os.Args[2])
	preset := "main"
	if len(os.Args) > 3 {
		preset = os.Args[3]
	}
	pr, _ := c01.Build(c01.Payload{Seed: seed, Size: size, Preset: preset})
	for name, text := range pr.Source() {
		fmt.Printf("// module %s\n%s\n", name, text)
	}
	fmt.Println("// hazards:", prog.Hazards(pr))
	m := prog.Run(pr, nil, 0)
	fmt.Printf("// model: class=%s kind=%s discard=%v steps=%d\n%s", m.Class, m.Kind, m.Discard, m.Steps, m.Effects)
}
