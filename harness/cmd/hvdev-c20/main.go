// hv: driver of the runtime-monitoring harness (see /verif/DESIGN.md).
//
//	hv check <Cxx> <quick|thorough>     run a property check (supervisor)
//	hv worker <Cxx> <batch> <results> <journal>
//	hv replay <replay.json>             re-run the case of a replay file
//	hv list
package main

import (
	"encoding/json"
	"fmt"
	"os"
	"sort"
	"strconv"
	"strings"
	"time"

	"hv/drive"
	"hv/fw"
	"hv/props/c20"
)

func main() {
	if len(os.Args) < 2 {
		fmt.Fprintln(os.Stderr, "usage: hv check|worker|replay|list ...")
		os.Exit(2)
	}
	switch os.Args[1] {
	case "gen":
		// hvdev-c20 gen <seed> <size> [mode]   (development aid: print a generated program and its tags)
		seed, _ := strconv.ParseUint(os.Args[2], 10, 64)
		size, _ := strconv.Atoi(os.Args[3])
		mode := "main"
		if len(os.Args) > 4 {
			mode = os.Args[4]
		}
		spec := c20.GenSpec{Seed: seed, Size: size, Mode: mode}
		src := spec.Source()
		fmt.Print(src)
		tags, ok := c20.ConstructTags(drive.Sources{"main": src})
		fmt.Fprintln(os.Stderr, "accepted:", ok, "tags:", tags)
		if !ok {
			fmt.Fprintln(os.Stderr, drive.Analyze(drive.Sources{"main": src}, "main", true).ErrorSummary())
		}
	case "gencheck":
		// hvdev-c20 gencheck <n> [mode]: generate n programs, report those the analyzer rejects
		n, _ := strconv.Atoi(os.Args[2])
		mode := "main"
		if len(os.Args) > 3 {
			mode = os.Args[3]
		}
		r := fw.NewRng(99)
		bad := 0
		for i := 0; i < n; i++ {
			spec := c20.GenSpec{Seed: r.Next(), Size: 5 + r.Intn(12), Mode: mode}
			src := spec.Source()
			ao := drive.Analyze(drive.Sources{"main": src}, "main", true)
			if ao.Errors > 0 {
				bad++
				fmt.Printf("seed=%d size=%d: %s\n", spec.Seed, spec.Size, ao.ErrorSummary())
			}
		}
		fmt.Println("rejected:", bad, "of", n)
	case "timecases":
		// hvdev-c20 timecases <tier>: run every case in-process and print the slowest (development aid)
		pr, _ := fw.Lookup("C20")
		cs := pr.Cases(os.Args[2], 1)
		type tc struct {
			id string
			d  time.Duration
		}
		var ts []tc
		t0 := time.Now()
		for _, c := range cs {
			t := time.Now()
			pr.Run(c)
			ts = append(ts, tc{c.ID, time.Since(t)})
		}
		sort.Slice(ts, func(i, j int) bool { return ts[i].d > ts[j].d })
		for i := 0; i < 25 && i < len(ts); i++ {
			fmt.Println(ts[i].id, ts[i].d)
		}
		fmt.Println("total", time.Since(t0), "cases", len(cs))
	case "basecheck":
		// hvdev-c20 basecheck <n> [mode]: report generated programs whose printed untransformed tree is broken
		n, _ := strconv.Atoi(os.Args[2])
		mode := "main"
		if len(os.Args) > 3 {
			mode = os.Args[3]
		}
		r := fw.NewRng(4242)
		for i := 0; i < n; i++ {
			spec := c20.GenSpec{Seed: r.Next(), Size: 5 + r.Intn(12), Mode: mode}
			j := c20.Judge(drive.Sources{"main": spec.Source()}, nil, nil)
			if j.Baseline != "" || j.OrigBudget || j.Rejected != "" {
				fmt.Printf("seed=%d size=%d: baseline=%q budget=%v rejected=%q\n", spec.Seed, spec.Size, j.Baseline, j.OrigBudget, j.Rejected)
			}
		}
	case "printbase":
		// hvdev-c20 printbase file.hms: the analysed-tree printer's rendering of the untransformed program
		b, _ := os.ReadFile(os.Args[2])
		ao := drive.Analyze(drive.Sources{"main": string(b)}, "main", true)
		fmt.Print(ao.Modules["main"].String())
	case "probe":
		// hvdev-c20 probe file.hms [nseeds] [passes,comma] [-v]   (development aid)
		b, err := os.ReadFile(os.Args[2])
		if err != nil {
			fmt.Fprintln(os.Stderr, err)
			os.Exit(2)
		}
		ns, passes, verbose := 8, []int{1, 2, 3}, false
		for i, a := range os.Args[3:] {
			if a == "-v" {
				verbose = true
			} else if i == 0 {
				ns, _ = strconv.Atoi(a)
			} else if i == 1 {
				passes = nil
				for _, f := range strings.Split(a, ",") {
					n, _ := strconv.Atoi(f)
					passes = append(passes, n)
				}
			}
		}
		var seeds []int64
		for i := 0; i < ns; i++ {
			seeds = append(seeds, int64(i))
		}
		c20.Probe(os.Stdout, drive.Sources{"main": string(b)}, seeds, passes, verbose)
	case "list":
		for _, id := range fw.IDs() {
			fmt.Println(id)
		}
	case "worker":
		os.Exit(fw.WorkerMain(os.Args[2:]))
	case "check", "replay":
		var o fw.Options
		seed := uint64(1)
		if s := os.Getenv("VERIF_SEED"); s != "" {
			if n, err := strconv.ParseUint(s, 10, 64); err == nil {
				seed = n
			} else if n, err := strconv.ParseInt(s, 10, 64); err == nil {
				seed = uint64(n)
			}
		}
		o.Seed = seed
		o.WorkerBin = os.Getenv("HV_WORKER_BIN")
		if o.WorkerBin == "" {
			exe, _ := os.Executable()
			o.WorkerBin = exe
		}
		if os.Args[1] == "check" {
			if len(os.Args) < 4 {
				fmt.Fprintln(os.Stderr, "usage: hv check <Cxx> <quick|thorough>")
				os.Exit(2)
			}
			o.Prop, o.Tier = os.Args[2], os.Args[3]
			if t := os.Getenv("VERIF_TIER"); t == "quick" || t == "thorough" {
				o.Tier = t
			}
		} else {
			if len(os.Args) < 3 {
				fmt.Fprintln(os.Stderr, "usage: hv replay <file>")
				os.Exit(2)
			}
			b, err := os.ReadFile(os.Args[2])
			if err != nil {
				fmt.Fprintln(os.Stderr, err)
				os.Exit(2)
			}
			var rep struct {
				Property string  `json:"property"`
				Tier     string  `json:"tier"`
				Seed     uint64  `json:"seed"`
				Case     fw.Case `json:"case"`
			}
			if err := json.Unmarshal(b, &rep); err != nil {
				fmt.Fprintln(os.Stderr, err)
				os.Exit(2)
			}
			o.Prop, o.Tier, o.Seed = rep.Property, rep.Tier, rep.Seed
			o.OnlyCase = &rep.Case
		}
		if o.Tier != "quick" && o.Tier != "thorough" {
			fmt.Fprintln(os.Stderr, "tier must be quick or thorough")
			os.Exit(2)
		}
		sum := fw.Supervise(o)
		if sum.Violations > 0 {
			// violations were observed and printed: they decide the exit code even if the run also
			// failed its own sanity conditions (e.g. a run cut short observes too little)
			if sum.Broken != "" {
				fmt.Printf("NOTE property=%s: %s\n", o.Prop, sum.Broken)
			}
			os.Exit(1)
		}
		if sum.Broken != "" {
			fmt.Printf("BROKEN property=%s: %s\n", o.Prop, sum.Broken)
			os.Exit(2)
		}
	default:
		fmt.Fprintln(os.Stderr, "unknown subcommand", os.Args[1])
		os.Exit(2)
	}
}
