// hvrun: development tool. Runs a source file (modules: extra files given as name=path) on both
// backends and prints effects, outcomes and residue.  hvrun main.hms [mod=path ...]
package main

import (
	"fmt"
	"os"
	"strings"

	"hv/drive"
)

func main() {
	src := drive.Sources{}
	b, err := os.ReadFile(os.Args[1])
	if err != nil {
		panic(err)
	}
	src["main"] = string(b)
	backends := "tv"
	var callLimit uint
	for _, a := range os.Args[2:] {
		if strings.HasPrefix(a, "-b=") {
			backends = a[3:]
			continue
		}
		if strings.HasPrefix(a, "-limit=") {
			fmt.Sscan(a[7:], &callLimit)
			continue
		}
		name, path, _ := strings.Cut(a, "=")
		mb, err := os.ReadFile(path)
		if err != nil {
			panic(err)
		}
		src[name] = string(mb)
	}
	ao := drive.Analyze(src, "main", true)
	for _, s := range ao.Syntax {
		fmt.Printf("SYNTAX %s:%d:%d-%d:%d %s\n", s.Span.Filename, s.Span.Start.Line, s.Span.Start.Column, s.Span.End.Line, s.Span.End.Column, s.Message)
	}
	for _, d := range ao.Diags {
		fmt.Printf("DIAG[%v] %s:%d:%d-%d:%d %s %v\n", d.Level, d.Span.Filename, d.Span.Start.Line, d.Span.Start.Column, d.Span.End.Line, d.Span.End.Column, d.Message, d.Notes)
	}
	if ao.Errors > 0 {
		fmt.Println("REJECTED")
		return
	}
	if strings.Contains(backends, "t") {
		tr := drive.RunTree(ao.Modules, src, "main", drive.TreeOpts{CallLimit: callLimit})
		fmt.Printf("--- tree: outcome=%s steps=%d\n%s\n", tr.Outcome, tr.Steps, tr.Log.Render())
	}
	if strings.Contains(backends, "v") {
		vr := drive.RunVM(ao.Modules, src, "main", drive.VMOpts{})
		fmt.Printf("--- vm: outcome=%s steps=%d residues=%+v maxstack=%d maxframes=%d maxmp=%d catches=%d\n%s\n", vr.Outcome, vr.Steps, vr.Residues, vr.MaxStack, vr.MaxFrames, vr.MaxMP, vr.Catches, vr.Log.Render())
	}
}
