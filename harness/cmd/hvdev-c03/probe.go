package main

import (
	"fmt"
	"os"
	"path/filepath"
	"strings"

	"hv/drive"
)

// probe analyses .hms files given on the command line (development helper):
//
//	hvdev-c03 probe [-nomain] main.hms [mod.hms ...]
func probe(args []string) {
	mainShall := true
	src := drive.Sources{}
	entry := ""
	for _, a := range args {
		if a == "-nomain" {
			mainShall = false
			continue
		}
		b, err := os.ReadFile(a)
		if err != nil {
			fmt.Fprintln(os.Stderr, err)
			os.Exit(2)
		}
		name := strings.TrimSuffix(filepath.Base(a), ".hms")
		if entry == "" {
			entry = name
		}
		src[name] = string(b)
	}
	func() {
		defer func() {
			if r := recover(); r != nil {
				fmt.Println("PANIC:", r)
			}
		}()
		out := drive.Analyze(src, entry, mainShall)
		fmt.Printf("errors=%d\n", out.Errors)
		for _, s := range out.Syntax {
			fmt.Printf("syntax %s:%d:%d %s\n", s.Span.Filename, s.Span.Start.Line, s.Span.Start.Column, s.Message)
		}
		for _, d := range out.Diags {
			fmt.Printf("%v %s:%d:%d %s\n", d.Level, d.Span.Filename, d.Span.Start.Line, d.Span.Start.Column, d.Message)
		}
	}()
}
