// hv: driver of the runtime-monitoring harness (see /verif/DESIGN.md).
//
//	hv check <Cxx> <quick|thorough>     run a property check (supervisor)
//	hv worker <Cxx> <batch> <results> <journal>
//	hv replay <replay.json>             re-run the case of a replay file
//	hv list
package main

import (
	"encoding/json"
	"fmt"
	"os"
	"strconv"

	"hv/fw"
	_ "hv/props/c18"
)

func main() {
	if len(os.Args) < 2 {
		fmt.Fprintln(os.Stderr, "usage: hv check|worker|replay|list ...")
		os.Exit(2)
	}
	switch os.Args[1] {
	case "list":
		for _, id := range fw.IDs() {
			fmt.Println(id)
		}
	case "worker":
		os.Exit(fw.WorkerMain(os.Args[2:]))
	case "check", "replay":
		var o fw.Options
		seed := uint64(1)
		if s := os.Getenv("VERIF_SEED"); s != "" {
			if n, err := strconv.ParseUint(s, 10, 64); err == nil {
				seed = n
			} else if n, err := strconv.ParseInt(s, 10, 64); err == nil {
				seed = uint64(n)
			}
		}
		o.Seed = seed
		o.WorkerBin = os.Getenv("HV_WORKER_BIN")
		if o.WorkerBin == "" {
			exe, _ := os.Executable()
			o.WorkerBin = exe
		}
		if os.Args[1] == "check" {
			if len(os.Args) < 4 {
				fmt.Fprintln(os.Stderr, "usage: hv check <Cxx> <quick|thorough>")
				os.Exit(2)
			}
			o.Prop, o.Tier = os.Args[2], os.Args[3]
			if t := os.Getenv("VERIF_TIER"); t == "quick" || t == "thorough" {
				o.Tier = t
			}
		} else {
			if len(os.Args) < 3 {
				fmt.Fprintln(os.Stderr, "usage: hv replay <file>")
				os.Exit(2)
			}
			b, err := os.ReadFile(os.Args[2])
			if err != nil {
				fmt.Fprintln(os.Stderr, err)
				os.Exit(2)
			}
			var rep struct {
				Property string  `json:"property"`
				Tier     string  `json:"tier"`
				Seed     uint64  `json:"seed"`
				Case     fw.Case `json:"case"`
			}
			if err := json.Unmarshal(b, &rep); err != nil {
				fmt.Fprintln(os.Stderr, err)
				os.Exit(2)
			}
			o.Prop, o.Tier, o.Seed = rep.Property, rep.Tier, rep.Seed
			o.OnlyCase = &rep.Case
		}
		if o.Tier != "quick" && o.Tier != "thorough" {
			fmt.Fprintln(os.Stderr, "tier must be quick or thorough")
			os.Exit(2)
		}
		sum := fw.Supervise(o)
		if sum.Violations > 0 {
			// violations were observed and printed: they decide the exit code even if the run also
			// failed its own sanity conditions (e.g. a run cut short observes too little)
			if sum.Broken != "" {
				fmt.Printf("NOTE property=%s: %s\n", o.Prop, sum.Broken)
			}
			os.Exit(1)
		}
		if sum.Broken != "" {
			fmt.Printf("BROKEN property=%s: %s\n", o.Prop, sum.Broken)
			os.Exit(2)
		}
	default:
		fmt.Fprintln(os.Stderr, "unknown subcommand", os.Args[1])
		os.Exit(2)
	}
}
