// Package fw is the shared runtime-monitoring framework: case lists, crash-isolated workers,
// verdict aggregation, known-finding classification and evidence files (DESIGN.md §2).
package fw

import (
	"crypto/sha256"
	"encoding/hex"
	"encoding/json"
	"sort"
	"sync"
)

// Verdict values (three-valued, DESIGN.md §0).
const (
	Held         = "held"
	Violated     = "violated"
	Inconclusive = "inconclusive"
)

// Case is one unit of work, produced on the supervisor side and executed in a worker.
type Case struct {
	ID      string          `json:"id"`
	Kind    string          `json:"kind"`
	Payload json.RawMessage `json:"payload"`
	// Tags name the constructs/features the generator put into the case. They are part of
	// known-finding signatures (a failure only matches a finding if the case carries its tag).
	Tags []string `json:"tags,omitempty"`
}

// Result is what a worker reports for one case.
type Result struct {
	ID      string `json:"id"`
	Verdict string `json:"verdict"`
	// Why is a human readable description of the failure (or of why the case is inconclusive).
	Why string `json:"why,omitempty"`
	// Sig is the narrow failure signature used to classify against known findings.
	Sig string `json:"sig,omitempty"`
	// Nontrivial: the case reached the non-trivial condition stated in the property's rule.
	Nontrivial bool `json:"nontrivial"`
	// Hash identifies the case for distinctness (default: hash of kind+payload).
	Hash string `json:"hash,omitempty"`
	// Cover lists coverage keys observed while running the case (histogram in the evidence).
	Cover []string `json:"cover,omitempty"`
	// Obs are numeric observations summed over all cases into the evidence.
	Obs map[string]int64 `json:"obs,omitempty"`
	// Detail carries expected/observed for the replay file.
	Detail any `json:"detail,omitempty"`
	// Sample is an optional verbatim rendering of the case for the evidence samples.
	Sample any `json:"sample,omitempty"`
	// Sub-results: a worker case may bundle many micro-checks; Evals counts them (default 1).
	Evals int64 `json:"evals,omitempty"`
	// Extra violations found in the same case (a case may check several things).
	More []SubViolation `json:"more,omitempty"`
}

// SubViolation is an additional failure inside one case.
type SubViolation struct {
	Why    string `json:"why"`
	Sig    string `json:"sig"`
	Detail any    `json:"detail,omitempty"`
}

// Crash describes the death of a worker while running a case.
type Crash struct {
	// Kind: go-panic | go-fatal | step-budget | lex-budget | watchdog | killed | oom
	Kind string `json:"kind"`
	// Message is the panic value or the fatal error text (first line).
	Message string `json:"message"`
	// TopFrame is the first function of /repo found in the stack dump (no line number).
	TopFrame string `json:"top_frame"`
	// StderrTail is the last part of the worker's stderr.
	StderrTail string `json:"stderr_tail"`
	ExitCode   int    `json:"exit_code"`
	// Deadlock (Kind watchdog only): the goroutine dump taken when the watchdog fired shows at least
	// one goroutine inside /repo code and every such goroutine blocked on a lock, channel or
	// condition (none running, runnable, sleeping or in a system call): nothing in the program can
	// make progress any more. BlockedIn names the /repo functions they are blocked in.
	Deadlock  bool   `json:"deadlock,omitempty"`
	BlockedIn string `json:"blocked_in,omitempty"`
	// CPUSeconds (Kind watchdog only): processor time the worker consumed between the start of the
	// case and the moment the watchdog fired; WatchdogS is the watchdog period. A case that burned
	// (nearly) the whole period on a processor without finishing is spinning, not starved.
	CPUSeconds float64 `json:"cpu_seconds,omitempty"`
	WatchdogS  float64 `json:"watchdog_s,omitempty"`
	// RunningIn (Kind watchdog only): the /repo function on top of a running or runnable goroutine.
	RunningIn string `json:"running_in,omitempty"`
}

// Info describes a property check for the evidence file.
type Info struct {
	Level       string   // exploration, ...
	Rule        string   // how cases are generated and what makes one non-trivial
	Assumptions []string // what the check assumes / trusts
	Exhaustive  bool     // the run enumerates a finite space completely
	// CaseTimeoutS is the per-case wall-clock watchdog in a worker (inconclusive when it fires).
	CaseTimeoutS int
	// BatchSize is the number of cases per worker batch (default 200).
	BatchSize int
	// Race: run the workers from the -race binary and parse the race logs.
	Race bool
	// MemLimitMB: address-space limit for (non-race) workers; 0 = default 4096.
	MemLimitMB int
	// Env is extra environment for workers (e.g. GOMAXPROCS), may be varied per batch by BatchEnv.
	BatchEnv func(batchIndex int) []string
	// Sequential: run batches one at a time (for checks that use all cores themselves).
	MaxWorkers int
}

// Property is implemented once per property id.
type Property interface {
	ID() string
	Info(tier string) Info
	// Cases builds the case list on the supervisor side. It must be a pure function of
	// (tier, seed) and the files on disk.
	Cases(tier string, seed uint64) []Case
	// Run executes one case in a worker process. It may crash the process.
	Run(c Case) Result
	// OnCrash judges the death of a worker during case c (supervisor side).
	OnCrash(c Case, cr Crash) Result
}

// Finalizer can be implemented to add property-specific fields to the evidence coverage and to
// fail the run as broken when nothing was observed.
type Finalizer interface {
	Finalize(tier string, results []Result, coverage map[string]any) (brokenWhy string)
}

var (
	regMu sync.Mutex
	reg   = map[string]Property{}
)

// Register adds a property implementation (called from init functions).
func Register(p Property) {
	regMu.Lock()
	defer regMu.Unlock()
	reg[p.ID()] = p
}

// Lookup returns the registered property.
func Lookup(id string) (Property, bool) {
	regMu.Lock()
	defer regMu.Unlock()
	p, ok := reg[id]
	return p, ok
}

// IDs lists registered ids.
func IDs() []string {
	regMu.Lock()
	defer regMu.Unlock()
	out := make([]string, 0, len(reg))
	for k := range reg {
		out = append(out, k)
	}
	sort.Strings(out)
	return out
}

// HashOf returns a short stable hash of arbitrary data.
func HashOf(parts ...any) string {
	h := sha256.New()
	for _, p := range parts {
		switch v := p.(type) {
		case string:
			h.Write([]byte(v))
		case []byte:
			h.Write(v)
		case json.RawMessage:
			h.Write(v)
		default:
			b, _ := json.Marshal(v)
			h.Write(b)
		}
		h.Write([]byte{0})
	}
	return hex.EncodeToString(h.Sum(nil))[:16]
}

// MkCase builds a case with a JSON payload.
func MkCase(id, kind string, payload any, tags ...string) Case {
	b, err := json.Marshal(payload)
	if err != nil {
		panic(err)
	}
	return Case{ID: id, Kind: kind, Payload: b, Tags: tags}
}

// Decode unmarshals a case payload.
func Decode(c Case, into any) {
	if err := json.Unmarshal(c.Payload, into); err != nil {
		panic("fw: cannot decode payload of case " + c.ID + ": " + err.Error())
	}
}

// HasTag reports whether the case carries a tag.
func (c Case) HasTag(t string) bool {
	for _, x := range c.Tags {
		if x == t {
			return true
		}
	}
	return false
}

// Rng is a splitmix64 generator: case lists are a pure function of the seed.
type Rng struct{ s uint64 }

// NewRng seeds a generator.
func NewRng(seed uint64) *Rng {
	// run the finalizer over the seed first: otherwise NewRng(seed+1) is NewRng(seed) shifted by one draw
	z := seed + 0x9E3779B97F4A7C15
	z = (z ^ (z >> 30)) * 0xBF58476D1CE4E5B9
	z = (z ^ (z >> 27)) * 0x94D049BB133111EB
	z ^= z >> 31
	return &Rng{s: z ^ 0x1234567}
}

// Next returns the next 64 random bits.
func (r *Rng) Next() uint64 {
	r.s += 0x9E3779B97F4A7C15
	z := r.s
	z = (z ^ (z >> 30)) * 0xBF58476D1CE4E5B9
	z = (z ^ (z >> 27)) * 0x94D049BB133111EB
	return z ^ (z >> 31)
}

// Intn returns a number in [0,n).
func (r *Rng) Intn(n int) int {
	if n <= 0 {
		return 0
	}
	return int(r.Next() % uint64(n))
}

// Bool returns true with probability 1/2.
func (r *Rng) Bool() bool { return r.Next()&1 == 1 }

// Chance returns true with probability num/den.
func (r *Rng) Chance(num, den int) bool { return r.Intn(den) < num }

// Fork derives an independent generator.
func (r *Rng) Fork() *Rng { return NewRng(r.Next()) }

// State exposes the generator state (for replay files).
func (r *Rng) State() uint64 { return r.s }

// Pick returns a random element.
func Pick[T any](r *Rng, xs []T) T { return xs[r.Intn(len(xs))] }
