package fw

import (
	"bufio"
	"bytes"
	"encoding/json"
	"fmt"
	"os"
	"os/exec"
	"path/filepath"
	"regexp"
	"runtime"
	"sort"
	"strconv"
	"strings"
	"sync"
	"syscall"
	"time"
)

// ---------------------------------------------------------------------------------------------
// Worker side
// ---------------------------------------------------------------------------------------------

// Sentinel panic messages raised by hook callbacks (decided by steps, not by time).
const (
	StepBudgetMsg = "verif: step budget exceeded"
	LexBudgetMsg  = "verif: lexer call budget exceeded"
)

// WorkerMain runs a batch: hv worker <prop> <batch> <results> <journal>.
func WorkerMain(args []string) int {
	if len(args) != 4 {
		fmt.Fprintln(os.Stderr, "usage: hv worker <prop> <batch.jsonl> <results.jsonl> <journal>")
		return 97
	}
	p, ok := Lookup(args[0])
	if !ok {
		fmt.Fprintln(os.Stderr, "unknown property", args[0])
		return 97
	}
	tier := os.Getenv("HV_TIER")
	if tier == "" {
		tier = "quick"
	}
	info := p.Info(tier)
	timeout := time.Duration(info.CaseTimeoutS) * time.Second
	if timeout == 0 {
		timeout = 60 * time.Second
	}
	in, err := os.Open(args[1])
	if err != nil {
		fmt.Fprintln(os.Stderr, err)
		return 97
	}
	defer in.Close()
	out, err := os.OpenFile(args[2], os.O_CREATE|os.O_WRONLY|os.O_APPEND, 0o644)
	if err != nil {
		fmt.Fprintln(os.Stderr, err)
		return 97
	}
	defer out.Close()
	journal, err := os.OpenFile(args[3], os.O_CREATE|os.O_WRONLY|os.O_APPEND, 0o644)
	if err != nil {
		fmt.Fprintln(os.Stderr, err)
		return 97
	}
	defer journal.Close()

	sc := bufio.NewScanner(in)
	sc.Buffer(make([]byte, 1<<20), 1<<28)
	idx := 0
	for sc.Scan() {
		var c Case
		if err := json.Unmarshal(sc.Bytes(), &c); err != nil {
			fmt.Fprintln(os.Stderr, "bad case line:", err)
			return 97
		}
		fmt.Fprintf(journal, "B %d\n", idx)
		cpu0 := processCPU()
		timer := time.AfterFunc(timeout, func() {
			fmt.Fprintf(journal, "T %d\n", idx)
			buf := make([]byte, 1<<20)
			n := runtime.Stack(buf, true)
			fmt.Fprintf(os.Stderr, "verif: watchdog fired after %s cpu=%.1fs period=%.1fs\n%s\n", timeout, processCPU()-cpu0, timeout.Seconds(), buf[:n])
			os.Exit(3)
		})
		r := p.Run(c)
		timer.Stop()
		r.ID = c.ID
		if r.Hash == "" {
			r.Hash = HashOf(c.Kind, c.Payload)
		}
		b, err := json.Marshal(r)
		if err != nil {
			fmt.Fprintln(os.Stderr, "cannot marshal result:", err)
			return 97
		}
		out.Write(append(b, '\n'))
		idx++
	}
	return 0
}

// ---------------------------------------------------------------------------------------------
// Supervisor side
// ---------------------------------------------------------------------------------------------

type batch struct {
	cases []Case
	index int
}

type outcome struct {
	c Case
	r Result
}

var repoFrameRe = regexp.MustCompile(`^(github\.com/smarthome-go/homescript/v3/[^\s(]+(?:\([^)]*\))?[^\s(]*)\(`)

func parseCrash(stderr string, exit int, timedOut bool) Crash {
	cr := Crash{ExitCode: exit}
	tail := stderr
	if len(tail) > 6000 {
		tail = tail[len(tail)-6000:]
	}
	cr.StderrTail = tail
	lines := strings.Split(stderr, "\n")
	for i, l := range lines {
		if strings.HasPrefix(l, "panic: ") {
			cr.Kind = "go-panic"
			cr.Message = strings.TrimPrefix(l, "panic: ")
			// multi-line panic messages: take the first line only, but keep a sentinel check
			_ = i
			break
		}
		if strings.HasPrefix(l, "fatal error: ") {
			cr.Kind = "go-fatal"
			cr.Message = strings.TrimPrefix(l, "fatal error: ")
			break
		}
		if strings.HasPrefix(l, "runtime: goroutine stack exceeds") {
			cr.Kind = "go-fatal"
			cr.Message = "stack overflow"
			break
		}
	}
	if cr.Kind == "" {
		switch {
		case timedOut || strings.Contains(stderr, "verif: watchdog fired"):
			cr.Kind = "watchdog"
			cr.Message = "per-case wall-clock watchdog fired"
		case strings.Contains(stderr, "out of memory") || strings.Contains(stderr, "cannot allocate memory"):
			cr.Kind = "oom"
			cr.Message = "memory cap hit"
		default:
			cr.Kind = "killed"
			cr.Message = fmt.Sprintf("worker exited with status %d", exit)
		}
	}
	if cr.Kind == "watchdog" {
		cr.Deadlock, cr.BlockedIn = deadlockInDump(stderr)
		if m := watchdogCPURe.FindStringSubmatch(stderr); m != nil {
			cr.CPUSeconds, _ = strconv.ParseFloat(m[1], 64)
			cr.WatchdogS, _ = strconv.ParseFloat(m[2], 64)
		}
		cr.RunningIn = runningInDump(stderr)
	}
	if strings.Contains(cr.Message, StepBudgetMsg) {
		cr.Kind = "step-budget"
	}
	if strings.Contains(cr.Message, LexBudgetMsg) {
		cr.Kind = "lex-budget"
	}
	if strings.Contains(cr.Message, "out of memory") || strings.Contains(cr.Message, "cannot allocate") {
		cr.Kind = "oom"
	}
	if strings.Contains(cr.Message, "stack overflow") || strings.Contains(cr.Message, "stack exceeds") {
		cr.Message = "stack overflow"
	}
	// first /repo frame below the panic
	seenHeader := false
	for _, l := range lines {
		if strings.HasPrefix(l, "goroutine ") {
			seenHeader = true
			continue
		}
		if !seenHeader {
			continue
		}
		if m := repoFrameRe.FindStringSubmatch(l); m != nil {
			f := strings.TrimPrefix(m[1], "github.com/smarthome-go/homescript/v3/homescript/")
			cr.TopFrame = f
			break
		}
	}
	return cr
}

// Options for a supervisor run.
type Options struct {
	Prop      string
	Tier      string
	Seed      uint64
	WorkerBin string // binary used for workers (plain or -race)
	OnlyCase  *Case  // replay mode: run just this case
}

// Summary is what Supervise returns.
type Summary struct {
	Violations int
	Broken     string
	Known      map[string]int
}

func envInt(name string, def int) int {
	if v := os.Getenv(name); v != "" {
		if n, err := strconv.Atoi(v); err == nil {
			return n
		}
	}
	return def
}

// Supervise runs a property check end to end and writes its evidence file.
func Supervise(o Options) Summary {
	start := time.Now()
	p, ok := Lookup(o.Prop)
	if !ok {
		return Summary{Broken: "unknown property " + o.Prop}
	}
	info := p.Info(o.Tier)
	if info.Race {
		if rb := os.Getenv("HV_RACE_BIN"); rb != "" {
			o.WorkerBin = rb
		} else {
			return Summary{Broken: "race worker binary not built (HV_RACE_BIN unset)"}
		}
	}
	root := VerifRoot()
	tmpBase := os.Getenv("TMPDIR")
	if tmpBase == "" || strings.HasPrefix(tmpBase, "/tmp") {
		tmpBase = "/var/tmp"
	}
	scratch, err := os.MkdirTemp(tmpBase, "hv-"+o.Prop+"-")
	if err != nil {
		return Summary{Broken: "cannot create scratch dir: " + err.Error()}
	}
	defer os.RemoveAll(scratch)

	var cases []Case
	var kfCases []Case
	if o.OnlyCase != nil {
		cases = []Case{*o.OnlyCase}
	} else {
		cases = p.Cases(o.Tier, o.Seed)
		for fi, f := range Findings() {
			if f.Property != o.Prop || f.Witness == nil {
				continue
			}
			c := *f.Witness
			c.ID = fmt.Sprintf("kf:%s:%s:%d", f.Status, f.Name, fi)
			kfCases = append(kfCases, c)
		}
	}
	all := append(append([]Case{}, kfCases...), cases...)
	if len(all) == 0 {
		return Summary{Broken: "no cases generated"}
	}
	seen := map[string]bool{}
	for _, c := range all {
		if seen[c.ID] {
			return Summary{Broken: "duplicate case id " + c.ID}
		}
		seen[c.ID] = true
	}

	bs := info.BatchSize
	if bs <= 0 {
		bs = 200
	}
	var queue []batch
	for i := 0; i < len(all); i += bs {
		j := i + bs
		if j > len(all) {
			j = len(all)
		}
		queue = append(queue, batch{cases: all[i:j], index: len(queue)})
	}
	nw := runtime.NumCPU()
	if info.MaxWorkers > 0 && info.MaxWorkers < nw {
		nw = info.MaxWorkers
	}
	nw = envInt("HV_WORKERS", nw)

	var mu sync.Mutex
	var outs []outcome
	var raceLogs []string
	var harnessErr string
	skipped := 0
	next := 0
	batchSeq := len(queue)
	wedges := 0
	maxWedges := envInt("HV_MAX_WEDGES", 2*nw+8)
	take := func() (batch, bool) {
		mu.Lock()
		defer mu.Unlock()
		if wedges >= maxWedges && next < len(queue) {
			// circuit breaker: the tree wedges case after case; every further case costs a full
			// watchdog period. The cases not run are reported, the run is not silently shortened.
			for _, b := range queue[next:] {
				skipped += len(b.cases)
			}
			next = len(queue)
		}
		if next >= len(queue) {
			return batch{}, false
		}
		b := queue[next]
		next++
		return b, true
	}
	requeue := func(cs []Case) {
		mu.Lock()
		defer mu.Unlock()
		queue = append(queue, batch{cases: cs, index: batchSeq})
		batchSeq++
	}
	memMB := info.MemLimitMB
	if memMB == 0 {
		memMB = 4096
	}
	caseTimeout := info.CaseTimeoutS
	if caseTimeout == 0 {
		caseTimeout = 60
	}

	runBatch := func(b batch, wid int) {
		dir := filepath.Join(scratch, fmt.Sprintf("b%d", b.index))
		os.MkdirAll(dir, 0o755)
		defer os.RemoveAll(dir)
		bf := filepath.Join(dir, "batch.jsonl")
		rf := filepath.Join(dir, "results.jsonl")
		jf := filepath.Join(dir, "journal")
		ef := filepath.Join(dir, "stderr")
		var buf bytes.Buffer
		for _, c := range b.cases {
			line, _ := json.Marshal(c)
			buf.Write(line)
			buf.WriteByte('\n')
		}
		os.WriteFile(bf, buf.Bytes(), 0o644)
		var cmd *exec.Cmd
		hard := time.Duration(caseTimeout*len(b.cases)+120) * time.Second
		if info.Race {
			cmd = exec.Command(o.WorkerBin, "worker", o.Prop, bf, rf, jf)
		} else {
			sh := fmt.Sprintf("ulimit -v %d; exec %q worker %q %q %q %q", memMB*1024, o.WorkerBin, o.Prop, bf, rf, jf)
			cmd = exec.Command("/bin/sh", "-c", sh)
		}
		cmd.Env = append(os.Environ(), "HV_TIER="+o.Tier, "HV_SCRATCH="+dir, "VERIF_SEED="+strconv.FormatUint(o.Seed, 10))
		if info.Race {
			cmd.Env = append(cmd.Env, "GORACE=halt_on_error=0 log_path="+filepath.Join(dir, "race"))
		}
		if info.BatchEnv != nil {
			cmd.Env = append(cmd.Env, info.BatchEnv(b.index)...)
		}
		errFile, _ := os.Create(ef)
		cmd.Stderr = errFile
		cmd.Stdout = errFile
		cmd.SysProcAttr = &syscall.SysProcAttr{Setpgid: true}
		if err := cmd.Start(); err != nil {
			errFile.Close()
			mu.Lock()
			harnessErr = "cannot start worker: " + err.Error()
			mu.Unlock()
			return
		}
		done := make(chan error, 1)
		go func() { done <- cmd.Wait() }()
		timedOut := false
		var werr error
		select {
		case werr = <-done:
		case <-time.After(hard):
			timedOut = true
			syscall.Kill(-cmd.Process.Pid, syscall.SIGKILL)
			werr = <-done
		}
		errFile.Close()
		exit := 0
		if werr != nil {
			exit = -1
			if ee, ok := werr.(*exec.ExitError); ok {
				exit = ee.ExitCode()
			}
		}
		// collect results
		got := map[string]Result{}
		if f, err := os.Open(rf); err == nil {
			sc := bufio.NewScanner(f)
			sc.Buffer(make([]byte, 1<<20), 1<<28)
			for sc.Scan() {
				var r Result
				if json.Unmarshal(sc.Bytes(), &r) == nil {
					got[r.ID] = r
				}
			}
			f.Close()
		}
		if info.Race {
			matches, _ := filepath.Glob(filepath.Join(dir, "race.*"))
			for _, m := range matches {
				if data, err := os.ReadFile(m); err == nil {
					mu.Lock()
					raceLogs = append(raceLogs, string(data))
					mu.Unlock()
				}
			}
		}
		var local []outcome
		inflight := -1
		for i, c := range b.cases {
			if r, ok := got[c.ID]; ok {
				local = append(local, outcome{c, r})
			} else if inflight < 0 {
				inflight = i
			}
		}
		if inflight >= 0 {
			if exit == 97 {
				stderrB, _ := os.ReadFile(ef)
				mu.Lock()
				harnessErr = "worker reported a harness error: " + tailStr(string(stderrB), 800)
				mu.Unlock()
			} else {
				stderrB, _ := os.ReadFile(ef)
				cr := parseCrash(string(stderrB), exit, timedOut)
				c := b.cases[inflight]
				if cr.Kind == "go-panic" && cr.TopFrame == "" && !strings.Contains(string(stderrB), "github.com/smarthome-go/homescript/v3/") {
					// a Go panic without any frame of the repository on any stack: the harness itself
					// (reference model, generator) failed — never a statement about the code under test
					mu.Lock()
					harnessErr = "worker panicked outside the repository's code while running case " + c.ID + ": " + tailStr(string(stderrB), 1500)
					mu.Unlock()
				}
				r := p.OnCrash(c, cr)
				if cr.Kind == "watchdog" && cr.Deadlock && r.Verdict == Inconclusive {
					// not a matter of waiting longer: every goroutine of the program is blocked for good
					r.Verdict, r.Nontrivial = Violated, true
					r.Sig = "wedged:deadlock:" + cr.BlockedIn
					r.Why = "the run can never finish: when the watchdog fired every goroutine inside the repository's code was blocked on a lock or channel (" + cr.BlockedIn + ")\n" + tailStr(cr.StderrTail, 1500)
				}
				if cr.Kind == "watchdog" && !cr.Deadlock && r.Verdict == Inconclusive && cr.RunningIn != "" && cr.WatchdogS > 0 && cr.CPUSeconds >= 0.75*cr.WatchdogS {
					// not starved by a loaded machine: the worker burned (nearly) the whole watchdog
					// period of processor time inside the repository's code without finishing a case
					// that normally takes milliseconds (bounded progress, measured in the worker's own
					// processor time, which machine load does not inflate)
					r.Verdict, r.Nontrivial = Violated, true
					r.Sig = "wedged:spinning:" + cr.RunningIn
					r.Why = fmt.Sprintf("the case does not finish: the worker consumed %.0f s of processor time in %.0f s without completing it, running in %s\n%s", cr.CPUSeconds, cr.WatchdogS, cr.RunningIn, tailStr(cr.StderrTail, 1200))
				}
				if cr.Kind == "watchdog" || (cr.Kind == "killed" && timedOut) {
					mu.Lock()
					wedges++
					mu.Unlock()
				}
				r.ID = c.ID
				if r.Hash == "" {
					r.Hash = HashOf(c.Kind, c.Payload)
				}
				if r.Detail == nil {
					r.Detail = cr
				}
				local = append(local, outcome{c, r})
				if inflight+1 < len(b.cases) {
					requeue(b.cases[inflight+1:])
				}
			}
		} else if exit != 0 && !info.Race {
			stderrB, _ := os.ReadFile(ef)
			mu.Lock()
			harnessErr = fmt.Sprintf("worker exited %d after finishing its batch: %s", exit, tailStr(string(stderrB), 800))
			mu.Unlock()
		}
		mu.Lock()
		outs = append(outs, local...)
		mu.Unlock()
	}

	// worker pool: keeps draining the queue, including re-queued remainders
	var wg sync.WaitGroup
	active := 0
	cond := sync.NewCond(&mu)
	for w := 0; w < nw; w++ {
		wg.Add(1)
		go func(wid int) {
			defer wg.Done()
			for {
				mu.Lock()
				for next >= len(queue) && active > 0 {
					cond.Wait()
				}
				if next >= len(queue) && active == 0 {
					mu.Unlock()
					cond.Broadcast()
					return
				}
				active++
				mu.Unlock()
				b, ok := take()
				if ok {
					runBatch(b, wid)
				}
				mu.Lock()
				active--
				mu.Unlock()
				cond.Broadcast()
			}
		}(w)
	}
	wg.Wait()

	if harnessErr != "" {
		return Summary{Broken: harnessErr}
	}
	if len(outs)+skipped != len(all) {
		return Summary{Broken: fmt.Sprintf("lost cases: %d results for %d cases", len(outs), len(all))}
	}
	sort.Slice(outs, func(i, j int) bool { return outs[i].c.ID < outs[j].c.ID })

	// ---------------- classification ----------------
	sum := Summary{Known: map[string]int{}}
	replayDir := filepath.Join(root, "replays", o.Prop)
	var lines []string
	distinct := map[string]bool{}
	cover := map[string]int64{}
	obs := map[string]int64{}
	var evals int64
	inconclusive := skipped
	var incLines []string
	if skipped > 0 {
		incLines = append(incLines, fmt.Sprintf("INCONCLUSIVE property=%s cases=%d why=not run: the run was cut short after %d cases wedged until their wall-clock watchdog fired (HV_MAX_WEDGES)", o.Prop, skipped, wedges))
	}
	var samples []any
	var sampleCands []any
	var results []Result
	kfPrinted := map[string]bool{}
	findings := Findings()
	findingByCase := map[string]*Finding{}
	for i := range findings {
		f := &findings[i]
		if f.Property == o.Prop && f.Witness != nil {
			findingByCase[fmt.Sprintf("kf:%s:%s:%d", f.Status, f.Name, i)] = f
		}
	}
	violate := func(c Case, why, sig string, detail any) {
		sum.Violations++
		os.MkdirAll(replayDir, 0o755)
		path := filepath.Join(replayDir, HashOf(c.Kind, c.Payload, sig)+".json")
		rep := map[string]any{"property": o.Prop, "tier": o.Tier, "seed": o.Seed, "case": c, "why": why, "sig": sig, "detail": detail}
		b, _ := json.MarshalIndent(rep, "", " ")
		os.WriteFile(path, b, 0o644)
		if sum.Violations <= 40 {
			lines = append(lines, fmt.Sprintf("VIOLATION property=%s replay=%s", o.Prop, path))
			lines = append(lines, fmt.Sprintf("  case=%s sig=%s why=%s", c.ID, sig, oneLine(why, 400)))
		}
	}
	for _, oc := range outs {
		c, r := oc.c, oc.r
		results = append(results, r)
		n := r.Evals
		if n == 0 {
			n = 1
		}
		evals += n
		for _, k := range r.Cover {
			cover[k]++
		}
		for k, v := range r.Obs {
			obs[k] += v
		}
		if r.Nontrivial && r.Verdict != Inconclusive {
			distinct[r.Hash] = true
		}
		if r.Sample != nil && len(sampleCands) < 5000 && !strings.HasPrefix(c.ID, "kf:") {
			sampleCands = append(sampleCands, r.Sample)
		}
		if f, isKF := findingByCase[c.ID]; isKF {
			switch {
			case f.Status == "open" && r.Verdict == Violated:
				ok := f.sigRe == nil || f.sigRe.MatchString(r.Sig)
				if !ok {
					for _, m := range r.More {
						if f.sigRe.MatchString(m.Sig) {
							ok = true
						}
					}
				}
				if ok {
					sum.Known[f.Name]++
					if !kfPrinted[f.Name] {
						kfPrinted[f.Name] = true
						lines = append(lines, fmt.Sprintf("KNOWN-FINDING: property=%s %s %s", o.Prop, f.Name, f.What))
					}
				} else {
					violate(c, "witness of "+f.Name+" fails with a different signature: "+r.Why, r.Sig, r.Detail)
				}
			case f.Status == "open" && r.Verdict == Held:
				lines = append(lines, fmt.Sprintf("NOTE property=%s finding %s no longer reproduces on this tree (witness passes)", o.Prop, f.Name))
			case f.Status == "fixed" && r.Verdict == Violated:
				violate(c, "regression of fixed finding ("+f.What+"): "+r.Why, r.Sig, r.Detail)
			case r.Verdict == Inconclusive:
				inconclusive++
				incLines = append(incLines, fmt.Sprintf("INCONCLUSIVE property=%s case=%s why=%s", o.Prop, c.ID, oneLine(r.Why, 200)))
			}
			continue
		}
		switch r.Verdict {
		case Held:
		case Inconclusive:
			inconclusive++
			if len(incLines) < 20 {
				incLines = append(incLines, fmt.Sprintf("INCONCLUSIVE property=%s case=%s why=%s", o.Prop, c.ID, oneLine(r.Why, 200)))
			}
		case Violated:
			subs := append([]SubViolation{{Why: r.Why, Sig: r.Sig, Detail: r.Detail}}, r.More...)
			for _, s := range subs {
				if f := matchFinding(o.Prop, c, s.Sig); f != nil {
					sum.Known[f.Name]++
					if !kfPrinted[f.Name] {
						kfPrinted[f.Name] = true
						lines = append(lines, fmt.Sprintf("KNOWN-FINDING: property=%s %s %s", o.Prop, f.Name, f.What))
					}
					continue
				}
				violate(c, s.Why, s.Sig, s.Detail)
			}
		default:
			return Summary{Broken: "case " + c.ID + " returned no verdict"}
		}
	}

	// race logs
	raceReports := 0
	coverage := map[string]any{}
	if info.Race {
		reps := ParseRaceLogs(raceLogs)
		raceReports = len(reps)
		coverage["race_reports_distinct"] = len(reps)
		for _, rp := range reps {
			if !rp.InRepo {
				return Summary{Broken: "race report with no /repo frame (harness race): " + oneLine(rp.Text, 1500)}
			}
			c := Case{ID: "race:" + rp.Key, Kind: "race-report", Payload: json.RawMessage(`{}`), Tags: []string{"race"}}
			if f := matchFinding(o.Prop, c, "race:"+rp.Key); f != nil {
				sum.Known[f.Name]++
				if !kfPrinted[f.Name] {
					kfPrinted[f.Name] = true
					lines = append(lines, fmt.Sprintf("KNOWN-FINDING: property=%s %s %s", o.Prop, f.Name, f.What))
				}
				continue
			}
			violate(c, "data race reported by the Go race detector: "+rp.Key, "race:"+rp.Key, rp.Text)
		}
	}

	for k := 0; k < 5 && k < len(sampleCands); k++ {
		samples = append(samples, sampleCands[k*len(sampleCands)/5])
	}
	if len(sampleCands) < 5 {
		samples = sampleCands
	}
	if len(samples) == 0 {
		for _, oc := range outs {
			if len(samples) >= 3 {
				break
			}
			samples = append(samples, map[string]any{"kind": oc.c.Kind, "payload": oc.c.Payload})
		}
	}
	coverage["evaluations"] = evals
	coverage["cases"] = len(outs)
	coverage["distinct_nontrivial"] = len(distinct)
	coverage["rule"] = info.Rule
	coverage["samples"] = samples
	coverage["exhaustive"] = info.Exhaustive
	coverage["inconclusive"] = inconclusive
	coverage["known_findings_seen"] = sum.Known
	if len(cover) > 0 {
		coverage["constructs"] = cover
	}
	if len(obs) > 0 {
		coverage["observations"] = obs
	}
	if info.Race {
		coverage["race_reports"] = raceReports
	}
	if fz, ok := p.(Finalizer); ok && o.OnlyCase == nil {
		if why := fz.Finalize(o.Tier, results, coverage); why != "" {
			sum.Broken = why
		}
	}
	if skipped > 0 && sum.Broken == "" {
		sum.Broken = fmt.Sprintf("the run was cut short: %d cases were not run after %d cases wedged until the watchdog fired; nothing can be claimed for them", skipped, wedges)
	}
	if o.OnlyCase == nil && sum.Broken == "" && len(distinct) < 2 {
		sum.Broken = fmt.Sprintf("the run observed nothing non-trivial (%d distinct non-trivial cases)", len(distinct))
	}

	for _, l := range lines {
		fmt.Println(l)
	}
	for _, l := range incLines {
		fmt.Println(l)
	}
	if o.OnlyCase != nil {
		for _, oc := range outs {
			b, _ := json.MarshalIndent(oc.r, "", " ")
			fmt.Println(string(b))
		}
		return sum
	}
	ev := map[string]any{
		"property_id": o.Prop,
		"tier":        o.Tier,
		"seed":        o.Seed,
		"level":       info.Level,
		"coverage":    coverage,
		"assumptions": info.Assumptions,
		"wall_s":      time.Since(start).Seconds(),
		"violations":  sum.Violations,
	}
	os.MkdirAll(filepath.Join(root, "evidence"), 0o755)
	b, _ := json.MarshalIndent(ev, "", " ")
	if err := os.WriteFile(filepath.Join(root, "evidence", o.Prop+".json"), append(b, '\n'), 0o644); err != nil {
		sum.Broken = "cannot write evidence: " + err.Error()
	}
	fmt.Printf("SUMMARY property=%s tier=%s seed=%d cases=%d evaluations=%d distinct_nontrivial=%d violations=%d known=%d inconclusive=%d wall=%.1fs\n",
		o.Prop, o.Tier, o.Seed, len(outs), evals, len(distinct), sum.Violations, len(sum.Known), inconclusive, time.Since(start).Seconds())
	return sum
}

var watchdogCPURe = regexp.MustCompile(`verif: watchdog fired after \S+ cpu=([0-9.]+)s period=([0-9.]+)s`)

// processCPU is the processor time (user + system, all threads) this process has consumed so far.
func processCPU() float64 {
	var ru syscall.Rusage
	if syscall.Getrusage(syscall.RUSAGE_SELF, &ru) != nil {
		return 0
	}
	return float64(ru.Utime.Sec+ru.Stime.Sec) + float64(ru.Utime.Usec+ru.Stime.Usec)/1e6
}

// runningInDump names the first /repo function on the stack of a goroutine that was running or
// runnable when the watchdog fired ("" if there is none).
func runningInDump(stderr string) string {
	i := strings.Index(stderr, "verif: watchdog fired")
	if i < 0 {
		return ""
	}
	const repo = "github.com/smarthome-go/homescript/v3/"
	for _, b := range strings.Split(stderr[i:], "\n\n") {
		b = strings.TrimSpace(b)
		if j := strings.Index(b, "goroutine "); j > 0 {
			b = b[j:]
		}
		if !strings.HasPrefix(b, "goroutine ") || !strings.Contains(b, repo) {
			continue
		}
		head := b
		if k := strings.Index(b, "\n"); k > 0 {
			head = b[:k]
		}
		if !strings.Contains(head, "[running") && !strings.Contains(head, "[runnable") {
			continue
		}
		for _, ln := range strings.Split(b, "\n") {
			if strings.HasPrefix(ln, repo) {
				f := strings.TrimPrefix(ln, repo+"homescript/")
				if k := strings.LastIndex(f, "("); k > 0 {
					f = f[:k]
				}
				return f
			}
		}
	}
	return ""
}

// deadlockInDump reads the goroutine dump a watchdog wrote: it reports a deadlock when at least one
// goroutine has a frame of the repository on its stack and every such goroutine is blocked on a
// synchronisation primitive. A state-based verdict: no goroutine of the program can run again, however
// long one waits (sleeping goroutines, running ones and pending I/O make it "not a deadlock").
func deadlockInDump(stderr string) (bool, string) {
	i := strings.Index(stderr, "verif: watchdog fired")
	if i < 0 {
		return false, ""
	}
	blocks := strings.Split(stderr[i:], "\n\n")
	const repo = "github.com/smarthome-go/homescript/v3/"
	blockedStates := []string{"semacquire", "sync.Mutex.Lock", "sync.RWMutex.Lock", "sync.RWMutex.RLock", "chan receive", "chan send", "select", "sync.Cond.Wait", "sync.WaitGroup.Wait"}
	inRepo, blocked := 0, 0
	var where []string
	for _, b := range blocks {
		b = strings.TrimSpace(b)
		if j := strings.Index(b, "goroutine "); j > 0 {
			b = b[j:]
		}
		if !strings.HasPrefix(b, "goroutine ") || !strings.Contains(b, repo) {
			continue
		}
		head := b
		if k := strings.Index(b, "\n"); k > 0 {
			head = b[:k]
		}
		l, r := strings.Index(head, "["), strings.Index(head, "]")
		if l < 0 || r < l {
			continue
		}
		state := head[l+1 : r]
		if k := strings.Index(state, ","); k > 0 {
			state = state[:k]
		}
		if state == "sleep" && strings.Contains(b, "runtime.(*VM).Wait") {
			// the host polling for the end of its cores between sleeps: it waits for the others
			continue
		}
		inRepo++
		isBlocked := false
		for _, s := range blockedStates {
			if state == s || strings.HasPrefix(state, s+" ") {
				isBlocked = true
			}
		}
		if !isBlocked {
			return false, ""
		}
		blocked++
		for _, ln := range strings.Split(b, "\n") {
			if strings.HasPrefix(ln, repo) {
				f := strings.TrimPrefix(ln, repo+"homescript/")
				if k := strings.LastIndex(f, "("); k > 0 {
					f = f[:k]
				}
				where = append(where, f)
				break
			}
		}
	}
	if inRepo == 0 || blocked != inRepo {
		return false, ""
	}
	sort.Strings(where)
	return true, strings.Join(where, " | ")
}

func tailStr(s string, n int) string {
	if len(s) > n {
		return s[len(s)-n:]
	}
	return s
}

func oneLine(s string, n int) string {
	s = strings.ReplaceAll(s, "\n", "\\n")
	if len(s) > n {
		s = s[:n] + "…"
	}
	return s
}

// ---------------------------------------------------------------------------------------------
// Race log parsing (DESIGN.md §2.4)
// ---------------------------------------------------------------------------------------------

// RaceReport is one deduplicated report.
type RaceReport struct {
	Key    string
	Text   string
	InRepo bool
}

var lineNoRe = regexp.MustCompile(`:\d+ \+0x[0-9a-f]+`)
var addrRe = regexp.MustCompile(`0x[0-9a-f]+`)

// ParseRaceLogs splits race logs into reports and dedupes them by the pair of top /repo frames.
func ParseRaceLogs(logs []string) []RaceReport {
	seen := map[string]bool{}
	var out []RaceReport
	for _, log := range logs {
		blocks := strings.Split(log, "==================")
		for _, b := range blocks {
			if !strings.Contains(b, "WARNING: DATA RACE") {
				continue
			}
			var tops []string
			inRepo := false
			// a report has sections "Write at ... by goroutine N:" / "Previous read at ...": take the
			// first /repo function of each of the first two access stacks
			sections := regexp.MustCompile(`(?m)^(Write|Read|Previous write|Previous read|Atomic|Previous atomic)[^\n]*\n`).Split(b, -1)
			for si, s := range sections {
				if si == 0 || si > 2 {
					continue
				}
				top := ""
				for _, l := range strings.Split(s, "\n") {
					l = strings.TrimSpace(l)
					if l == "" && top != "" {
						break
					}
					if strings.HasPrefix(l, "github.com/smarthome-go/homescript/v3/") {
						inRepo = true
						fn := l
						if i := strings.Index(fn, "("); i > 0 && !strings.HasPrefix(fn[i:], "(*") {
							fn = fn[:i]
						} else if j := strings.LastIndex(fn, "("); j > 0 {
							fn = fn[:j]
						}
						top = strings.TrimPrefix(fn, "github.com/smarthome-go/homescript/v3/homescript/")
						break
					}
				}
				tops = append(tops, top)
			}
			sort.Strings(tops)
			key := strings.Join(tops, "|")
			if seen[key] {
				continue
			}
			seen[key] = true
			txt := addrRe.ReplaceAllString(lineNoRe.ReplaceAllString(b, ""), "0x")
			out = append(out, RaceReport{Key: key, Text: txt, InRepo: inRepo})
		}
	}
	return out
}
