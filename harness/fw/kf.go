package fw

import (
	"bufio"
	"encoding/json"
	"fmt"
	"os"
	"path/filepath"
	"regexp"
	"strings"
)

// Finding is one line of /verif/known_findings.txt (DESIGN.md §2.9, Appendix D).
//
//	open: property=C11 KF-name what fails :: {"witness":{...case...},"sig":"regex","tag":"t"}
//	fixed: property=C06 <commit> what failed :: {"witness":{...case...}}
type Finding struct {
	Status   string // open | fixed
	Property string
	Name     string // KF-id for open findings, commit for fixed ones
	What     string
	Witness  *Case  `json:"witness,omitempty"`
	Sig      string `json:"sig,omitempty"`
	Tag      string `json:"tag,omitempty"`
	// WitnessFile: path (relative to /verif) of a JSON file holding the witness case.
	WitnessFile string `json:"witness_file,omitempty"`
	sigRe       *regexp.Regexp
}

// VerifRoot is the directory that holds known_findings.txt, evidence/, replays/, corpus/.
func VerifRoot() string {
	if r := os.Getenv("VERIF_ROOT"); r != "" {
		return r
	}
	return "/verif"
}

var findingsCache []Finding
var findingsLoaded bool

// Findings parses the known-findings file. It is read-only at run time.
func Findings() []Finding {
	if findingsLoaded {
		return findingsCache
	}
	findingsLoaded = true
	f, err := os.Open(filepath.Join(VerifRoot(), "known_findings.txt"))
	if err != nil {
		return nil
	}
	defer f.Close()
	sc := bufio.NewScanner(f)
	sc.Buffer(make([]byte, 1<<20), 1<<26)
	ln := 0
	for sc.Scan() {
		ln++
		line := strings.TrimSpace(sc.Text())
		if line == "" || strings.HasPrefix(line, "#") {
			continue
		}
		var fd Finding
		switch {
		case strings.HasPrefix(line, "open:"):
			fd.Status = "open"
			line = strings.TrimSpace(line[5:])
		case strings.HasPrefix(line, "fixed:"):
			fd.Status = "fixed"
			line = strings.TrimSpace(line[6:])
		default:
			panic(fmt.Sprintf("known_findings.txt:%d: line must start with open: or fixed:", ln))
		}
		head, tail, hasTail := strings.Cut(line, " :: ")
		parts := strings.SplitN(head, " ", 3)
		if len(parts) < 2 || !strings.HasPrefix(parts[0], "property=") {
			panic(fmt.Sprintf("known_findings.txt:%d: malformed head", ln))
		}
		fd.Property = strings.TrimPrefix(parts[0], "property=")
		fd.Name = parts[1]
		if len(parts) == 3 {
			fd.What = parts[2]
		}
		if hasTail {
			if err := json.Unmarshal([]byte(tail), &fd); err != nil {
				panic(fmt.Sprintf("known_findings.txt:%d: bad JSON tail: %v", ln, err))
			}
		}
		if fd.WitnessFile != "" && fd.Witness == nil {
			b, err := os.ReadFile(filepath.Join(VerifRoot(), fd.WitnessFile))
			if err != nil {
				panic(fmt.Sprintf("known_findings.txt:%d: witness file: %v", ln, err))
			}
			var c Case
			if err := json.Unmarshal(b, &c); err != nil {
				panic(fmt.Sprintf("known_findings.txt:%d: witness file: %v", ln, err))
			}
			fd.Witness = &c
		}
		if fd.Sig != "" {
			fd.sigRe = regexp.MustCompile(fd.Sig)
		}
		findingsCache = append(findingsCache, fd)
	}
	return findingsCache
}

// KFOpen reports whether an open finding with this name exists (generators use it to
// poison the features the finding makes unusable; a fixed finding un-poisons them).
func KFOpen(name string) bool {
	for _, f := range Findings() {
		if f.Status == "open" && f.Name == name {
			return true
		}
	}
	return false
}

// matchFinding returns the open finding matching a failure of this property, if any.
func matchFinding(prop string, c Case, sig string) *Finding {
	fs := Findings()
	for i := range fs {
		f := &fs[i]
		if f.Status != "open" || f.Property != prop || f.sigRe == nil {
			continue
		}
		if f.Tag != "" && !c.HasTag(f.Tag) {
			continue
		}
		if f.sigRe.MatchString(sig) {
			return f
		}
	}
	return nil
}
