package drive

import goruntime "runtime"

func goruntimeStack(buf []byte) int { return goruntime.Stack(buf, false) }
