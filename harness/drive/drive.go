// Package drive runs the real implementation (/repo) from in-memory sources with hosts that log
// every host-visible effect (DESIGN.md §2.7) and monitors installed on the verif hooks.
package drive

import (
	"context"
	"fmt"
	"sort"
	"strings"
	"sync"
	"sync/atomic"

	hms "github.com/smarthome-go/homescript/v3/homescript"
	"github.com/smarthome-go/homescript/v3/homescript/analyzer"
	"github.com/smarthome-go/homescript/v3/homescript/analyzer/ast"
	"github.com/smarthome-go/homescript/v3/homescript/compiler"
	"github.com/smarthome-go/homescript/v3/homescript/diagnostic"
	herrors "github.com/smarthome-go/homescript/v3/homescript/errors"
	"github.com/smarthome-go/homescript/v3/homescript/interpreter"
	ivalue "github.com/smarthome-go/homescript/v3/homescript/interpreter/value"
	"github.com/smarthome-go/homescript/v3/homescript/lexer"
	pAst "github.com/smarthome-go/homescript/v3/homescript/parser/ast"
	"github.com/smarthome-go/homescript/v3/homescript/runtime"
	vvalue "github.com/smarthome-go/homescript/v3/homescript/runtime/value"

	"hv/fw"
)

// Sources maps module names to program text. The entry module is conventionally "main".
type Sources map[string]string

// ---------------------------------------------------------------------------------------------
// Analyzer host
// ---------------------------------------------------------------------------------------------

// Host is an in-memory analyzer.HostProvider.
type Host struct {
	Src      Sources
	Resolved []string // modules in the order the analyzer asked for them
	// ExtraImports lets a check offer additional builtin imports (module -> name -> import).
	ExtraImports map[string]map[string]analyzer.BuiltinImport
}

func (h *Host) GetKnownObjectTypeFieldAnnotations() []string { return []string{"setting"} }

func (h *Host) PostValidationHook(map[string]ast.AnalyzedProgram, string, *analyzer.Analyzer, bool) []diagnostic.Diagnostic {
	return nil
}

func (h *Host) ResolveCodeModule(name string) (string, bool, error) {
	h.Resolved = append(h.Resolved, name)
	code, ok := h.Src[name]
	return code, ok, nil
}

func (h *Host) GetBuiltinImport(module, val string, span herrors.Span, kind pAst.IMPORT_KIND) (analyzer.BuiltinImport, bool, bool) {
	if m, ok := h.ExtraImports[module]; ok {
		if imp, ok := m[val]; ok {
			return imp, true, true
		}
		return analyzer.BuiltinImport{}, true, false
	}
	return hms.TestingAnalyzerHost{}.GetBuiltinImport(module, val, span, kind)
}

// AnalyzeOut is the result of analysing a source set.
type AnalyzeOut struct {
	Modules  map[string]ast.AnalyzedProgram
	Diags    []diagnostic.Diagnostic
	Syntax   []herrors.Error
	Errors   int // number of error-level diagnostics + syntax errors
	Resolved []string
}

// ErrorSummary renders the error diagnostics compactly.
func (a AnalyzeOut) ErrorSummary() string {
	var sb strings.Builder
	for _, s := range a.Syntax {
		fmt.Fprintf(&sb, "syntax %s:%d:%d %s; ", s.Span.Filename, s.Span.Start.Line, s.Span.Start.Column, s.Message)
	}
	for _, d := range a.Diags {
		if d.Level == diagnostic.DiagnosticLevelError {
			fmt.Fprintf(&sb, "error %s:%d:%d %s; ", d.Span.Filename, d.Span.Start.Line, d.Span.Start.Column, d.Message)
		}
	}
	return sb.String()
}

// AnalyzerScope is the analyzer-side description of the builtins the harness offers: the testing
// builtins of the repository plus the harness probes.
func AnalyzerScope() map[string]analyzer.Variable {
	s := hms.TestingAnalyzerScopeAdditions()
	sp := herrors.Span{}
	// probe(x): hands the dynamic value to the monitor (any number of values of any type)
	s["probe"] = analyzer.NewBuiltinVar(ast.NewFunctionType(
		ast.NewVarArgsFunctionTypeParamKind([]ast.Type{}, ast.NewUnknownType()), sp, ast.NewNullType(sp), sp))
	// vsleep(n): blocking builtin that polls the cancel context n times (virtual time)
	s["vsleep"] = analyzer.NewBuiltinVar(ast.NewFunctionType(
		ast.NewNormalFunctionTypeParamKind([]ast.FunctionTypeParam{
			ast.NewFunctionTypeParam(pAst.NewSpannedIdent("n", sp), ast.NewIntType(sp), nil),
		}), sp, ast.NewNullType(sp), sp))
	return s
}

// Analyze analyses the entry module of a source set with the in-memory host.
func Analyze(src Sources, entry string, mainShallExist bool) AnalyzeOut {
	h := &Host{Src: src}
	return AnalyzeWith(h, src, entry, mainShallExist)
}

// AnalyzeWith is Analyze with a caller-supplied host.
func AnalyzeWith(h *Host, src Sources, entry string, mainShallExist bool) AnalyzeOut {
	mods, diags, syn := hms.Analyze(hms.InputProgram{ProgramText: src[entry], Filename: entry}, AnalyzerScope(), h, mainShallExist)
	out := AnalyzeOut{Modules: mods, Diags: diags, Syntax: syn, Resolved: h.Resolved}
	out.Errors = len(syn)
	for _, d := range diags {
		if d.Level == diagnostic.DiagnosticLevelError {
			out.Errors++
		}
	}
	return out
}

// ---------------------------------------------------------------------------------------------
// Effects
// ---------------------------------------------------------------------------------------------

// Effect is one host-visible effect.
type Effect struct {
	Kind string `json:"k"` // write | trigger | singleton | probe
	Text string `json:"t"`
	Seq  int64  `json:"-"`
}

// Log is a thread-safe effect log stamped by one logical clock.
type Log struct {
	mu      sync.Mutex
	clock   int64
	bytes   int
	Effects []Effect
}

func (l *Log) add(kind, text string) {
	l.mu.Lock()
	l.bytes += len(text)
	if l.bytes > 64<<20 {
		l.mu.Unlock()
		// an output bomb is treated like a step budget overrun (decided by size, not time)
		panic(fw.StepBudgetMsg)
	}
	l.clock++
	l.Effects = append(l.Effects, Effect{Kind: kind, Text: text, Seq: l.clock})
	l.mu.Unlock()
}

// Snapshot returns a copy of the effects recorded so far.
func (l *Log) Snapshot() []Effect {
	l.mu.Lock()
	defer l.mu.Unlock()
	return append([]Effect{}, l.Effects...)
}

// Output concatenates all written text.
func (l *Log) Output() string {
	l.mu.Lock()
	defer l.mu.Unlock()
	var sb strings.Builder
	for _, e := range l.Effects {
		if e.Kind == "write" {
			sb.WriteString(e.Text)
		}
	}
	return sb.String()
}

// Render gives a canonical one-string rendering of the whole effect log: consecutive writes are
// merged (print vs. println chunking is not a host-visible difference in content).
func (l *Log) Render() string {
	l.mu.Lock()
	defer l.mu.Unlock()
	var sb strings.Builder
	for _, e := range l.Effects {
		switch e.Kind {
		case "write":
			sb.WriteString(e.Text)
		default:
			fmt.Fprintf(&sb, "\x01%s:%s\x02", e.Kind, e.Text)
		}
	}
	return sb.String()
}

// ---------------------------------------------------------------------------------------------
// VM executor
// ---------------------------------------------------------------------------------------------

// VMExec is the VM-side host.
type VMExec struct {
	L          *Log
	Src        Sources
	Singletons map[string]vvalue.Value // singleton ident -> host-provided value
	Probes     *[]vvalue.Value
	pmu        *sync.Mutex
}

func (e VMExec) LoadSingleton(ident, module string) (vvalue.Value, bool, error) {
	e.L.add("singleton", ident+"@"+module)
	if v, ok := e.Singletons[ident]; ok {
		return v, true, nil
	}
	return nil, false, nil
}
func (e VMExec) Free() error { return nil }
func (e VMExec) GetBuiltinImport(module, name string) (vvalue.Value, bool) {
	return hms.TestingVmExecutor{PrintBuf: new(string), PintBufMutex: &sync.Mutex{}}.GetBuiltinImport(module, name)
}
func (e VMExec) ResolveModuleCode(name string) (string, bool, error) {
	c, ok := e.Src[name]
	return c, ok, nil
}
func (e VMExec) WriteStringTo(s string) error { e.L.add("write", s); return nil }
func (e VMExec) RegisterTrigger(callback, trigger string, span herrors.Span, args []vvalue.Value) error {
	parts := make([]string, len(args))
	for i, a := range args {
		d, _ := a.Display()
		parts[i] = d
	}
	e.L.add("trigger", fmt.Sprintf("%s<-%s(%s)", callback, trigger, strings.Join(parts, ",")))
	return nil
}

// VMScope returns the VM-side builtins (testing builtins + harness probes).
func (e VMExec) VMScope() map[string]vvalue.Value {
	s := hms.TestingVmScopeAdditions()
	s["probe"] = *vvalue.NewValueBuiltinFunction(func(_ vvalue.Executor, _ *context.Context, _ herrors.Span, args ...vvalue.Value) (*vvalue.Value, *vvalue.VmInterrupt) {
		if e.Probes != nil {
			e.pmu.Lock()
			*e.Probes = append(*e.Probes, args...)
			e.pmu.Unlock()
		}
		return vvalue.NewValueNull(), nil
	})
	s["vsleep"] = *vvalue.NewValueBuiltinFunction(func(_ vvalue.Executor, ctx *context.Context, span herrors.Span, args ...vvalue.Value) (*vvalue.Value, *vvalue.VmInterrupt) {
		n := args[0].(vvalue.ValueInt).Inner
		for i := int64(0); i < n; i++ {
			select {
			case <-(*ctx).Done():
				return nil, vvalue.NewVMTerminationInterrupt("vsleep cancelled", span)
			default:
			}
		}
		return vvalue.NewValueNull(), nil
	})
	return s
}

// ---------------------------------------------------------------------------------------------
// Outcomes
// ---------------------------------------------------------------------------------------------

// Outcome is the final outcome of a run in a backend-neutral form.
type Outcome struct {
	// Class: ok | fatal | terminate | exit | go-panic (interpreter only; the VM cannot recover)
	Class string `json:"class"`
	// Kind: for fatal the error kind name (UncaughtThrow, ValueError, …)
	Kind    string `json:"kind,omitempty"`
	Message string `json:"msg,omitempty"`
	Span    herrors.Span
	HasSpan bool
}

func (o Outcome) String() string {
	if o.Class == "ok" {
		return "ok"
	}
	return fmt.Sprintf("%s/%s: %s", o.Class, o.Kind, o.Message)
}

// FirstLine strips the stack trace the VM appends to fatal messages.
func FirstLine(s string) string {
	if i := strings.Index(s, "\n"); i >= 0 {
		return s[:i]
	}
	return s
}

// Residue is what a core left behind when it exited. Stack counts the operand-stack entries beyond
// the result of the core's function: every function leaves exactly one value (null for a function
// without result), the module initialiser run by core 0 leaves none.
type Residue struct {
	Core      uint  `json:"core"`
	Stack     int   `json:"stack"`
	CallStack int   `json:"frames"`
	MP        int64 `json:"mp"`
	Handlers  int   `json:"handlers"`
}

// VMOpts configures a VM run.
type VMOpts struct {
	Limits     runtime.CoreLimits
	Singletons map[string]vvalue.Value
	// StepBudget aborts the process with fw.StepBudgetMsg when any core exceeds it (0 = 20M).
	StepBudget int64
	// Ctx: optional custom context (counting context); default context.Background with cancel.
	Ctx    context.Context
	Cancel context.CancelFunc
	// Function to run after init (default main).
	Invoke *runtime.FunctionInvocation
	// SkipMain: only construct the VM (runs @init).
	SkipMain bool
}

// DefaultLimits are the limits cmd/ uses.
var DefaultLimits = runtime.CoreLimits{CallStackMaxSize: 2048, StackMaxSize: 500, MaxMemorySize: 100000}

// VMRun is the observation of one VM execution.
type VMRun struct {
	Outcome    Outcome
	Log        *Log
	Residues   []Residue
	Steps      int64
	MaxStack   int
	MaxFrames  int
	MaxMP      int64
	Catches    int64
	Probes     []vvalue.Value
	VM         *runtime.VM
	CompileErr string
}

var stepCount atomic.Int64

// Monitor state shared with hook callbacks (one VM run at a time per process).
type vmMon struct {
	mu        sync.Mutex
	residues  []Residue
	maxStack  int
	maxFrames int
	maxMP     int64
	catches   int64
	budget    int64
	steps     atomic.Int64
}

// Compile compiles analysed modules.
func Compile(mods map[string]ast.AnalyzedProgram, entry string) (compiler.CompileOutput, error) {
	c := compiler.NewCompiler(mods, entry)
	return c.Compile()
}

// RunVM compiles and runs the entry module's main on the VM with monitors attached.
func RunVM(mods map[string]ast.AnalyzedProgram, src Sources, entry string, o VMOpts) VMRun {
	out := VMRun{Log: &Log{}}
	prog, err := Compile(mods, entry)
	if err != nil {
		out.CompileErr = err.Error()
		out.Outcome = Outcome{Class: "compile-error", Message: err.Error()}
		return out
	}
	return RunCompiled(prog, src, o, &out)
}

// RunCompiled runs an already compiled program.
func RunCompiled(prog compiler.CompileOutput, src Sources, o VMOpts, out *VMRun) VMRun {
	if out == nil {
		out = &VMRun{Log: &Log{}}
	}
	mon := &vmMon{budget: o.StepBudget}
	if mon.budget == 0 {
		mon.budget = 20_000_000
	}
	runtime.VerifStep = func(c *runtime.Core) {
		n := mon.steps.Add(1)
		if n > mon.budget {
			panic(fw.StepBudgetMsg)
		}
		// high-water marks (only meaningful for single-core runs; racy reads are avoided by
		// only touching the core's own fields from its own goroutine)
		if l := len(c.Stack); l > mon.maxStack {
			mon.mu.Lock()
			if l > mon.maxStack {
				mon.maxStack = l
			}
			mon.mu.Unlock()
		}
		if l := len(c.CallStack); l > mon.maxFrames {
			mon.mu.Lock()
			if l > mon.maxFrames {
				mon.maxFrames = l
			}
			mon.mu.Unlock()
		}
		if c.MemoryPointer > mon.maxMP {
			mon.mu.Lock()
			if c.MemoryPointer > mon.maxMP {
				mon.maxMP = c.MemoryPointer
			}
			mon.mu.Unlock()
		}
	}
	runtime.VerifCoreExit = func(c *runtime.Core) {
		mon.mu.Lock()
		stack := len(c.Stack)
		if c.Corenum != 0 {
			stack--
		}
		mon.residues = append(mon.residues, Residue{Core: c.Corenum, Stack: stack, CallStack: len(c.CallStack), MP: c.MemoryPointer, Handlers: len(c.ExceptionCatchLabels)})
		mon.mu.Unlock()
	}
	runtime.VerifCatch = func(c *runtime.Core) {
		mon.mu.Lock()
		mon.catches++
		mon.mu.Unlock()
	}
	defer func() {
		runtime.VerifStep = nil
		runtime.VerifCoreExit = nil
		runtime.VerifCatch = nil
	}()

	ctx, cancel := o.Ctx, o.Cancel
	if ctx == nil {
		ctx, cancel = context.WithCancel(context.Background())
	}
	if cancel == nil {
		cancel = func() {}
	}
	var probes []vvalue.Value
	exec := VMExec{L: out.Log, Src: src, Singletons: o.Singletons, Probes: &probes, pmu: &sync.Mutex{}}
	limits := o.Limits
	if limits.CallStackMaxSize == 0 && limits.StackMaxSize == 0 && limits.MaxMemorySize == 0 {
		limits = DefaultLimits
	}
	var cf context.CancelFunc = cancel
	vm := runtime.NewVM(prog, exec, &ctx, &cf, exec.VMScope(), limits)
	out.VM = &vm
	if !o.SkipMain {
		inv := runtime.MainFn()
		if o.Invoke != nil {
			inv = *o.Invoke
		}
		vm.SpawnAsync(inv, nil, nil, nil)
		_, i := vm.Wait()
		out.Outcome = VMOutcome(i)
	} else {
		out.Outcome = Outcome{Class: "ok"}
	}
	cancel()
	mon.mu.Lock()
	out.Residues = append([]Residue{}, mon.residues...)
	out.MaxStack, out.MaxFrames, out.MaxMP, out.Catches = mon.maxStack, mon.maxFrames, mon.maxMP, mon.catches
	mon.mu.Unlock()
	out.Steps = mon.steps.Load()
	out.Probes = probes
	return *out
}

// VMOutcome converts a VM interrupt.
func VMOutcome(i *vvalue.VmInterrupt) Outcome {
	if i == nil {
		return Outcome{Class: "ok"}
	}
	oc := Outcome{Message: (*i).Message()}
	func() {
		defer func() { recover() }()
		oc.Span = (*i).GetSpan()
		oc.HasSpan = true
	}()
	switch v := (*i).(type) {
	case vvalue.VmFatalException:
		oc.Class = "fatal"
		oc.Kind = fatalKindName(uint8(v.ErrKind))
		oc.Message = FirstLine(v.MessageInternal)
	case vvalue.VmTerminationInterrupt:
		oc.Class = "terminate"
	case vvalue.Vm_ExitInterrupt:
		oc.Class = "exit"
	case vvalue.Vm_NormalException:
		oc.Class = "exception"
	default:
		oc.Class = "unknown"
	}
	return oc
}

// fatalKindName maps the shared numbering of fatal kinds (both libraries use the same order).
func fatalKindName(k uint8) string {
	names := []string{"StackOverFlow", "OutOfMemoryError", "ValueError", "ImportError", "HostError", "JsonError", "CastError", "IndexOutOfBounds", "UncaughtThrow"}
	if int(k) < len(names) {
		return names[k]
	}
	return fmt.Sprintf("kind%d", k)
}

// ---------------------------------------------------------------------------------------------
// Tree interpreter
// ---------------------------------------------------------------------------------------------

// TreeExec is the interpreter-side host.
type TreeExec struct {
	L   *Log
	Src Sources
}

func (e TreeExec) LoadSingleton(ident string, typ ast.Type) (*ivalue.Value, bool, *ivalue.Interrupt) {
	e.L.add("singleton", ident)
	return nil, false, nil
}
func (e TreeExec) GetUser() string { return "verif" }
func (e TreeExec) GetBuiltinImport(module, name string) (ivalue.Value, bool) {
	return hms.TestingTreeExecutor{Output: new(string)}.GetBuiltinImport(module, name)
}
func (e TreeExec) ResolveModuleCode(name string) (string, bool, error) {
	c, ok := e.Src[name]
	return c, ok, nil
}
func (e TreeExec) WriteStringTo(s string) error { e.L.add("write", s); return nil }

// TreeScope returns the interpreter-side builtins.
func (e TreeExec) TreeScope(probes *[]ivalue.Value) map[string]ivalue.Value {
	s := hms.TestingInterpreterScopeAdditions()
	s["probe"] = *ivalue.NewValueBuiltinFunction(func(_ ivalue.Executor, _ *context.Context, _ herrors.Span, args ...ivalue.Value) (*ivalue.Value, *ivalue.Interrupt) {
		if probes != nil {
			*probes = append(*probes, args...)
		}
		return ivalue.NewValueNull(), nil
	})
	s["vsleep"] = *ivalue.NewValueBuiltinFunction(func(_ ivalue.Executor, ctx *context.Context, span herrors.Span, args ...ivalue.Value) (*ivalue.Value, *ivalue.Interrupt) {
		n := args[0].(ivalue.ValueInt).Inner
		for i := int64(0); i < n; i++ {
			select {
			case <-(*ctx).Done():
				return nil, ivalue.NewTerminationInterrupt("vsleep cancelled", span)
			default:
			}
		}
		return ivalue.NewValueNull(), nil
	})
	return s
}

// TreeRun is the observation of one interpreter execution.
type TreeRun struct {
	Outcome Outcome
	Log     *Log
	Steps   int64
	Probes  []ivalue.Value
}

// TreeOpts configures an interpreter run.
type TreeOpts struct {
	CallLimit  uint
	StepBudget int64
	Ctx        context.Context
}

type stepBudgetPanic struct{}

// RunTree runs the entry module on the tree-walking interpreter. Go panics on the interpreter's
// goroutine are recovered and reported as outcome class go-panic.
func RunTree(mods map[string]ast.AnalyzedProgram, src Sources, entry string, o TreeOpts) (out TreeRun) {
	out.Log = &Log{}
	budget := o.StepBudget
	if budget == 0 {
		budget = 20_000_000
	}
	var steps int64
	interpreter.VerifStep = func() {
		steps++
		if steps > budget {
			panic(stepBudgetPanic{})
		}
	}
	defer func() { interpreter.VerifStep = nil; out.Steps = steps }()
	ctx := o.Ctx
	if ctx == nil {
		ctx = context.Background()
	}
	limit := o.CallLimit
	if limit == 0 {
		limit = 2048
	}
	exec := TreeExec{L: out.Log, Src: src}
	defer func() {
		if r := recover(); r != nil {
			if _, ok := r.(stepBudgetPanic); ok || r == any(fw.StepBudgetMsg) {
				out.Outcome = Outcome{Class: "step-budget", Message: fw.StepBudgetMsg}
				return
			}
			out.Outcome = Outcome{Class: "go-panic", Message: fmt.Sprint(r)}
		}
	}()
	var probes []ivalue.Value
	i := hms.Run(limit, mods, entry, exec, exec.TreeScope(&probes), &ctx)
	out.Probes = probes
	out.Outcome = TreeOutcome(i)
	return out
}

// TreeOutcome converts an interpreter interrupt.
func TreeOutcome(i *ivalue.Interrupt) Outcome {
	if i == nil {
		return Outcome{Class: "ok"}
	}
	oc := Outcome{Message: (*i).Message()}
	func() {
		defer func() { recover() }()
		oc.Span = (*i).GetSpan()
		oc.HasSpan = true
	}()
	switch v := (*i).(type) {
	case ivalue.RuntimeErr:
		oc.Class = "fatal"
		oc.Kind = fatalKindName(uint8(v.ErrKind))
		oc.Message = v.MessageInternal
	default:
		switch (*i).Kind() {
		case ivalue.TerminateInterruptKind:
			oc.Class = "terminate"
		case ivalue.ExitInterruptKind:
			oc.Class = "exit"
		case ivalue.NormalExceptionInterruptKind:
			oc.Class = "exception"
		default:
			oc.Class = "interrupt:" + (*i).Kind().String()
		}
	}
	return oc
}

// ---------------------------------------------------------------------------------------------
// Lexer budget monitor (C05)
// ---------------------------------------------------------------------------------------------

type lexBudgetPanic struct{ calls, runes int }

// LexStats is what the lexer monitor observed.
type LexStats struct {
	Instances int
	MaxRatio  float64
	Calls     int64
}

// WithLexBudget runs f with a monitor on lexer.NextToken: a lexer instance that is asked for more
// than 2*len(runes)+16 tokens means a parser loop that stopped consuming. Returns exceeded=true if
// the budget was exceeded (f is aborted through a panic that is recovered here), and any other
// panic value of f.
func WithLexBudget(f func()) (st LexStats, exceeded bool, panicVal any, stack string) {
	counts := map[*lexer.Lexer]int{}
	lexer.VerifLex = func(l *lexer.Lexer, n int) {
		counts[l]++
		st.Calls++
		if counts[l] > 2*n+16 {
			panic(lexBudgetPanic{counts[l], n})
		}
	}
	defer func() {
		lexer.VerifLex = nil
		st.Instances = len(counts)
	}()
	defer func() {
		if r := recover(); r != nil {
			if _, ok := r.(lexBudgetPanic); ok {
				exceeded = true
				return
			}
			panicVal = r
			stack = repoFrames()
		}
	}()
	f()
	return
}

func repoFrames() string {
	buf := make([]byte, 1<<15)
	n := goruntimeStack(buf)
	var out []string
	for _, l := range strings.Split(string(buf[:n]), "\n") {
		if strings.HasPrefix(l, "github.com/smarthome-go/homescript/v3/") {
			f := l
			if j := strings.LastIndex(f, "("); j > 0 {
				f = f[:j]
			}
			out = append(out, strings.TrimPrefix(f, "github.com/smarthome-go/homescript/v3/homescript/"))
			if len(out) >= 3 {
				break
			}
		}
	}
	return strings.Join(out, " < ")
}

// SortedKeys returns the sorted keys of a map.
func SortedKeys[V any](m map[string]V) []string {
	out := make([]string, 0, len(m))
	for k := range m {
		out = append(out, k)
	}
	sort.Strings(out)
	return out
}
